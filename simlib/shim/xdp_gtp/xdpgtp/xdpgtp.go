// Package xdpgtp replaces github.com/Rotchamar/xdp_gtp/xdpgtp inside the
// simulator with a recording data plane that keeps the real package's
// registration semantics (a UPF must be added before its clients) but
// touches no interface and loads no eBPF object.
package xdpgtp

import (
	"fmt"
	"net"

	"github.com/cilium/ebpf/link"

	"verifsim/world"
)

type client struct {
	ip   net.IP
	teid uint32
	upf  net.IP
}

type XDPGTP struct {
	st *state
}

type state struct {
	upfs    []net.IP
	clients []client
}

func NewXDPGTP(xdpFlags link.XDPAttachFlags) (*XDPGTP, error) {
	world.Init().DataPlane("NewXDPGTP", map[string]interface{}{"flags": uint32(xdpFlags)})
	return &XDPGTP{st: &state{}}, nil
}

func (x XDPGTP) Close() error {
	world.Init().DataPlane("Close", nil)
	return nil
}

func (x XDPGTP) AttachUpfFacingProgramToInterface(ifindex int) error {
	world.Init().DataPlane("AttachUpfFacing", map[string]interface{}{"ifindex": ifindex})
	return nil
}

func (x XDPGTP) AttachClientFacingProgramToInterface(ifindex int) error {
	world.Init().DataPlane("AttachClientFacing", map[string]interface{}{"ifindex": ifindex})
	return nil
}

func (x XDPGTP) AttachCommonProgramToInterface(ifindex int) error {
	world.Init().DataPlane("AttachCommon", map[string]interface{}{"ifindex": ifindex})
	return nil
}

func (x XDPGTP) DetachProgramFromInterface(ifindex int) error {
	world.Init().DataPlane("Detach", map[string]interface{}{"ifindex": ifindex})
	return nil
}

func str(ip net.IP) string {
	if ip == nil {
		return "<nil>"
	}
	return ip.String()
}

func (x XDPGTP) UpfIsRegistered(upfIP net.IP) bool {
	for _, u := range x.st.upfs {
		if u.Equal(upfIP) {
			return true
		}
	}
	return false
}

func (x XDPGTP) ClientIsRegistered(clientIP net.IP) bool {
	for _, c := range x.st.clients {
		if c.ip.Equal(clientIP) {
			return true
		}
	}
	return false
}

func (x XDPGTP) AddUpf(upfIP net.IP) error {
	world.Init().DataPlane("AddUpf", map[string]interface{}{"upf": str(upfIP)})
	x.st.upfs = append(x.st.upfs, append(net.IP{}, upfIP...))
	return nil
}

func (x XDPGTP) AddClient(clientIP net.IP, teid uint32, upfIP net.IP) error {
	world.Init().DataPlane("AddClient", map[string]interface{}{"client": str(clientIP), "teid": teid, "upf": str(upfIP)})
	if !x.UpfIsRegistered(upfIP) {
		return fmt.Errorf("assigned UPF has not been previously registered")
	}
	x.st.clients = append(x.st.clients, client{append(net.IP{}, clientIP...), teid, append(net.IP{}, upfIP...)})
	return nil
}

func (x XDPGTP) GetClients() ([]net.IP, []uint32, []net.IP) {
	var ips, upfs []net.IP
	var teids []uint32
	for _, c := range x.st.clients {
		ips = append(ips, c.ip)
		teids = append(teids, c.teid)
		upfs = append(upfs, c.upf)
	}
	return ips, teids, upfs
}

func (x XDPGTP) GetUpfs() []net.IP { return x.st.upfs }
