module github.com/Rotchamar/xdp_gtp

go 1.21

require (
	github.com/cilium/ebpf v0.12.3
	verifsim v0.0.0
)

replace verifsim => ../..

replace github.com/cilium/ebpf => ../ebpf
