// Package sctp replaces github.com/ishidawataru/sctp inside the simulator:
// the same exported surface the emulator uses, backed by the simulated N2
// association of verifsim/world instead of a kernel socket.
package sctp

import (
	"fmt"
	"net"
	"strings"
	"time"

	"verifsim/world"
)

type SCTPAddr struct {
	IPAddrs []net.IPAddr
	Port    int
}

func (a *SCTPAddr) String() string {
	var parts []string
	for _, ip := range a.IPAddrs {
		parts = append(parts, ip.String())
	}
	return fmt.Sprintf("%s:%d", strings.Join(parts, "/"), a.Port)
}

func (a *SCTPAddr) Network() string { return "sctp" }

type SndRcvInfo struct {
	Stream  uint16
	SSN     uint16
	Flags   uint16
	_       uint16
	PPID    uint32
	Context uint32
	TTL     uint32
	TSN     uint32
	CumTSN  uint32
	AssocID int32
}

type NotificationHandler func([]byte) error

type SCTPConn struct {
	info SndRcvInfo
}

func ipsOf(a *SCTPAddr) string {
	if a == nil {
		return ""
	}
	var parts []string
	for _, ip := range a.IPAddrs {
		parts = append(parts, ip.IP.String())
	}
	return strings.Join(parts, ",")
}

func portOf(a *SCTPAddr) int {
	if a == nil {
		return 0
	}
	return a.Port
}

func DialSCTP(network string, laddr, raddr *SCTPAddr) (*SCTPConn, error) {
	w := world.Init()
	if err := w.Dial(ipsOf(laddr), ipsOf(raddr), portOf(laddr), portOf(raddr)); err != nil {
		return nil, err
	}
	return &SCTPConn{}, nil
}

func NewSCTPConn(fd int, handler NotificationHandler) *SCTPConn {
	world.Init()
	return &SCTPConn{}
}

func (c *SCTPConn) Write(b []byte) (int, error) { return world.Init().Write(b) }
func (c *SCTPConn) Read(b []byte) (int, error)  { return world.Init().Read(b) }
func (c *SCTPConn) Close() error                { return world.Init().Close() }

func (c *SCTPConn) GetDefaultSentParam() (*SndRcvInfo, error) {
	i := c.info
	return &i, nil
}

func (c *SCTPConn) SetDefaultSentParam(info *SndRcvInfo) error {
	c.info = *info
	world.Init().Log(world.Event{Ev: "sndparam", UE: -1, Info: map[string]interface{}{"ppid": info.PPID}})
	return nil
}

func (c *SCTPConn) LocalAddr() net.Addr                 { return &SCTPAddr{} }
func (c *SCTPConn) RemoteAddr() net.Addr                { return &SCTPAddr{} }
func (c *SCTPConn) SetDeadline(t time.Time) error      { return nil }
func (c *SCTPConn) SetReadDeadline(t time.Time) error  { return nil }
func (c *SCTPConn) SetWriteDeadline(t time.Time) error { return nil }
