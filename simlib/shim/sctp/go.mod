module github.com/ishidawataru/sctp

go 1.21

require verifsim v0.0.0

replace verifsim => ../..
