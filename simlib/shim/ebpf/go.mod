module github.com/cilium/ebpf

go 1.21
