// Package link replaces github.com/cilium/ebpf/link inside the simulator;
// the emulator only needs the XDP attach flag constants.
package link

type XDPAttachFlags uint32

const (
	XDPGenericMode XDPAttachFlags = 1 << (iota + 1)
	XDPDriverMode
	XDPOffloadMode
)
