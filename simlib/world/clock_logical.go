//go:build !faketime

package world

import "sync/atomic"

var tick int64

// Now, in a rig that is not built on the fake clock (the in-process link and concurrency rigs have
// no timers and no transport), is a logical clock: the event sequence number. A real clock would
// make the event log - and with it the replay hash - differ from one execution to the next.
func (w *World) Now() int64 { return atomic.AddInt64(&tick, 1) }
