//go:build faketime

package world

import "time"

// Now is the simulated time in ns since the start of the run: under the faketime runtime the
// clock only moves when every goroutine is blocked, so it is a pure function of the scenario.
func (w *World) Now() int64 { return int64(time.Since(w.start)) }
