// Package world is the simulated environment of the emulator process: the
// event log, the simulated N2 association with its fault injector and timing,
// the reference core at its far end, and the recording data plane. The
// replaced github.com/ishidawataru/sctp and xdp_gtp modules call into it.
//
// Everything here runs on the calling goroutine and on the Go runtime's fake
// clock (-tags faketime): no goroutine, socket, pipe or real sleep exists in
// the child, so a run is a pure function of the scenario file and the code.
package world

import (
	"encoding/hex"
	"encoding/json"
	"fmt"
	"io"
	"os"
	"strings"
	"syscall"
	"time"

	"verifsim/ref/core"
	"verifsim/scn"
)

// Event is one line of the JSON event log.
type Event struct {
	T     int64                  `json:"t"` // simulated ns since process start
	Ev    string                 `json:"ev"`
	I     int                    `json:"i,omitempty"`
	K     int                    `json:"k"`
	Label string                 `json:"label,omitempty"`
	UE    int                    `json:"ue"`
	Hex   string                 `json:"hex,omitempty"`
	N     int                    `json:"n,omitempty"`
	At    int64                  `json:"at,omitempty"`
	Viol  []core.Violation       `json:"viol,omitempty"`
	Info  map[string]interface{} `json:"info,omitempty"`
	Fault string                 `json:"fault,omitempty"`
	Err   string                 `json:"err,omitempty"`
}

type pending struct {
	at    int64
	bytes []byte
	k     int
	label string
	ue    int
	off   int
	eof   bool // association shutdown marker
	abort bool
}

// World is the singleton environment of a child process.
type World struct {
	S         *scn.Scenario
	Core      *core.Core
	log       *os.File
	start     time.Time
	queue     []pending
	nDL       int // downlink messages produced so far (index k)
	nUL       int
	nWrite    int
	lastDL    int64 // FIFO: delivery time of the previous downlink message
	lastUL    int64
	lastSent  int64
	afterDown int  // transport calls made after the shutdown was reported to the emulator
	closed    bool // local Close called
	down      bool // peer shut the association down (marker queued)
	dialed    bool
	nDial     int
}

var W *World

// HangExit is the exit status of a child whose Read can never return.
const HangExit = 97

// SpinExit is the exit status of a child that keeps calling the transport although nothing can
// change any more: it polls an association that has shut down (every further Read returns EOF
// at once), or simulated time has run past any honest conversation. On the fake clock such a
// loop costs no wall time per iteration but never ends; the shim ends it and says so.
const SpinExit = 98

const (
	spinCalls  = 64                            // transport calls tolerated after the shutdown was reported
	simTimeCap = int64(96 * 3600 * 1000000000) // 96 simulated hours (10 000 UEs need about 3)
)

func (w *World) spin(reason string) {
	w.Log(Event{Ev: "spin", UE: -1, Info: map[string]interface{}{"reason": reason}})
	os.Exit(SpinExit)
}

// Init loads the scenario named by VSIM_SCENARIO and opens the event log VSIM_LOG.
// It is idempotent and is called lazily by the shims.
func Init() *World {
	if W != nil {
		return W
	}
	sp := os.Getenv("VSIM_SCENARIO")
	lp := os.Getenv("VSIM_LOG")
	if sp == "" || lp == "" {
		fmt.Fprintln(os.Stderr, "vsim: VSIM_SCENARIO / VSIM_LOG not set; this binary only runs under the simulator")
		os.Exit(96)
	}
	s, err := scn.LoadScenario(sp)
	if err != nil {
		fmt.Fprintln(os.Stderr, "vsim: cannot load scenario:", err)
		os.Exit(96)
	}
	f, err := os.OpenFile(lp, os.O_CREATE|os.O_WRONLY|os.O_TRUNC, 0644)
	if err != nil {
		fmt.Fprintln(os.Stderr, "vsim: cannot open event log:", err)
		os.Exit(96)
	}
	W = &World{S: s, Core: core.New(s), log: f, start: time.Now()}
	W.Log(Event{Ev: "start", UE: -1, Info: map[string]interface{}{"seed": s.Seed, "profile": s.Profile}})
	return W
}

// Log writes one event line, unbuffered, before the action it describes.
func (w *World) Log(e Event) {
	e.T = w.Now()
	b, err := json.Marshal(e)
	if err != nil {
		panic(err)
	}
	w.log.Write(append(b, '\n'))
}

func (w *World) hexOf(b []byte) string {
	if w.S.Quiet {
		return ""
	}
	return hex.EncodeToString(b)
}

func (w *World) fault(kind string, k int) *scn.Fault {
	for i := range w.S.Faults {
		f := &w.S.Faults[i]
		if f.Kind == kind && f.K == k {
			return f
		}
	}
	return nil
}

// Dial is DialSCTP.
func (w *World) Dial(laddr, raddr string, lport, rport int) error {
	w.Log(Event{Ev: "dial", UE: -1, Info: map[string]interface{}{"laddr": laddr, "lport": lport, "raddr": raddr, "rport": rport}})
	w.nDial++
	if f := w.fault("dial_fail", 0); f != nil && (f.Class != "first" || w.nDial == 1) {
		// class "first": only the first attempt of the run is refused, a second one would succeed
		w.Log(Event{Ev: "fault", UE: -1, Fault: "dial_fail"})
		return syscall.ECONNREFUSED
	}
	w.dialed = true
	return nil
}

func (w *World) dlDelay(k int) int64 {
	if len(w.S.Lat.DL) == 0 {
		return 0
	}
	return w.S.Lat.DL[k%len(w.S.Lat.DL)]
}

func (w *World) procDelay(k int) int64 {
	if len(w.S.Lat.Proc) == 0 {
		return 0
	}
	return w.S.Lat.Proc[k%len(w.S.Lat.Proc)]
}

// Write is SCTPConn.Write: one NGAP message towards the core.
func (w *World) Write(b []byte) (int, error) {
	j := w.nWrite
	w.nWrite++
	if w.closed {
		w.Log(Event{Ev: "write-after-close", UE: -1, I: j})
		return 0, syscall.EBADF
	}
	if f := w.fault("write_err", j); f != nil {
		w.Log(Event{Ev: "fault", UE: -1, Fault: "write_err", I: j})
		return 0, syscall.EPIPE
	}
	now := w.Now()
	if now > simTimeCap {
		w.spin("still writing after 96 simulated hours")
	}
	if w.peerDownBy(now) {
		w.Log(Event{Ev: "ul-after-shutdown", UE: -1, I: j, Hex: w.hexOf(b)})
		if w.afterDown++; w.afterDown > spinCalls {
			w.spin("keeps writing to an association that has shut down")
		}
		return 0, syscall.EPIPE
	}
	arrive := now + w.S.Lat.UL
	if arrive < w.lastUL {
		arrive = w.lastUL
	}
	w.lastUL = arrive
	msg := append([]byte{}, b...)
	res := w.Core.Handle(arrive, msg)
	i := w.nUL
	w.nUL++
	w.Log(Event{Ev: "ul", I: i, UE: res.UE, Label: res.Label, Hex: w.hexOf(msg), At: arrive, Viol: res.Viol, Info: res.Info})
	for _, o := range res.Out {
		w.enqueue(arrive, o)
	}
	return len(b), nil
}

// peerDownBy reports whether the association shutdown has taken effect by time t.
func (w *World) peerDownBy(t int64) bool {
	for _, p := range w.queue {
		if p.eof && p.at <= t {
			return true
		}
	}
	return false
}

func (w *World) enqueue(arrive int64, o core.Out) {
	if w.down {
		return // the peer is gone; it answers nothing further
	}
	k := w.nDL
	w.nDL++
	sent := arrive + w.procDelay(k)
	if sent < w.lastSent {
		sent = w.lastSent
	}
	w.lastSent = sent
	at := sent + w.dlDelay(k)
	if at < w.lastDL {
		at = w.lastDL
	}
	w.lastDL = at
	w.Core.SetSendTime(o.UE, o.Label, sent)
	if f := w.fault("close_before", k); f != nil {
		w.down = true
		w.queue = append(w.queue, pending{at: at, k: k, eof: true})
		w.Log(Event{Ev: "fault", UE: o.UE, Fault: "close_before", K: k, Label: o.Label, At: at})
		return
	}
	if f := w.fault("abort_before", k); f != nil {
		w.down = true
		w.queue = append(w.queue, pending{at: at, k: k, eof: true, abort: true})
		w.Log(Event{Ev: "fault", UE: o.UE, Fault: "abort_before", K: k, Label: o.Label, At: at})
		return
	}
	bytes := o.Bytes
	if f := w.fault("garbage", k); f != nil {
		bytes = Garbage(o.Bytes, f.Class)
		w.Log(Event{Ev: "fault", UE: o.UE, Fault: "garbage:" + f.Class, K: k, Label: o.Label, Hex: w.hexOf(bytes)})
	}
	w.queue = append(w.queue, pending{at: at, bytes: bytes, k: k, label: o.Label, ue: o.UE})
	w.Log(Event{Ev: "dl", K: k, UE: o.UE, Label: o.Label, Hex: w.hexOf(bytes), At: at})
}

// Garbage replaces a genuine reply by bytes every X.691 decoder must refuse.
func Garbage(genuine []byte, class string) []byte {
	if strings.HasPrefix(class, "cut:") {
		// strict prefix of the genuine reply, cut after n octets (1 <= n < len): the length
		// determinants inside announce more octets than there are
		n := 1
		fmt.Sscan(class[4:], &n)
		if n >= len(genuine) {
			n = len(genuine) - 1
		}
		if n < 1 {
			n = 1
		}
		return append([]byte{}, genuine[:n]...)
	}
	if strings.HasPrefix(class, "long:") {
		// undecodable bytes that fill the emulator's 2048-octet receive buffer exactly, or more than
		// once: an invalid NGAP-PDU CHOICE index followed by FF octets
		n := 2048
		fmt.Sscan(class[5:], &n)
		out := make([]byte, n)
		for i := range out {
			out[i] = 0xff
		}
		out[0] = 0x60
		return out
	}
	if strings.HasPrefix(class, "inner-len:") {
		// an otherwise well-formed reply in which the length determinant of the NAS-PDU octet string
		// claims more octets than its enclosing IE value holds (IE 38 | criticality | L | l, l = L-1):
		// no X.691 decoder may accept a value that runs out of its open type
		d := 1
		fmt.Sscan(class[10:], &d)
		for i := 0; i+4 < len(genuine); i++ {
			if genuine[i] == 0x00 && genuine[i+1] == 0x26 && genuine[i+2]&0x3f == 0 && genuine[i+3] < 0x80 && genuine[i+3] > 1 && genuine[i+4] == genuine[i+3]-1 {
				out := append([]byte{}, genuine...)
				nl := int(out[i+4]) + d
				if nl > 0x7f {
					nl = 0x7f
				}
				if nl <= int(genuine[i+4]) {
					break
				}
				out[i+4] = byte(nl)
				return out
			}
		}
		class = "prefix" // no short NAS-PDU in this message: fall back to a strict prefix
	}
	if class == "frag0" {
		// an otherwise well-formed reply in which a top-level string IE (NAS-PDU, or the AMF name of an
		// NG Setup response) is given the length determinant C0: a fragment of 0 x 16K items, which
		// X.691 10.9.3.8 does not allow (the multiplier is 1..4); the string's content is dropped and
		// the enclosing lengths are made consistent, so that nothing else is wrong with the message
		if out := frag0(genuine); out != nil {
			return out
		}
		class = "prefix"
	}
	switch class {
	case "empty-value":
		// the message header followed by an open type of length 0: a SEQUENCE cannot be empty
		return []byte{genuine[0], genuine[1], genuine[2], 0x00}
	case "short-value":
		// the message value is one octet long: the 16-bit count of the IE container cannot be read
		return []byte{genuine[0], genuine[1], genuine[2], 0x01, 0x00}
	case "short-value2":
		// two octets: the preamble and one octet of the 16-bit IE count
		return []byte{genuine[0], genuine[1], genuine[2], 0x02, 0x00, 0x00}
	case "choice":
		// NGAP-PDU CHOICE index 3 does not exist (three root alternatives)
		out := append([]byte{}, genuine...)
		out[0] = 0x60
		return out
	case "prefix":
		// strict prefix cut inside the mandatory content: keep the PDU header and claim the full length
		n := 6
		if len(genuine) < n+2 {
			n = len(genuine) - 1
		}
		return append([]byte{}, genuine[:n]...)
	case "empty-container":
		// open type length says more octets follow than exist
		return []byte{genuine[0], genuine[1], genuine[2], 0x7f, 0x00}
	}
	return []byte{0xff}
}

// perLen reads an X.691 length determinant (short or two-octet form) at b[i:]; n is its width.
func perLen(b []byte, i int) (l, n int) {
	if i >= len(b) {
		return -1, 0
	}
	if b[i] < 0x80 {
		return int(b[i]), 1
	}
	if b[i]&0xc0 == 0x80 && i+1 < len(b) {
		return int(b[i]&0x3f)<<8 | int(b[i+1]), 2
	}
	return -1, 0
}

func putPerLen(l int) []byte {
	if l < 0x80 {
		return []byte{byte(l)}
	}
	return []byte{0x80 | byte(l>>8), byte(l)}
}

func frag0(g []byte) []byte {
	if len(g) < 8 {
		return nil
	}
	ol, on := perLen(g, 3)
	if ol < 0 || 3+on+ol != len(g) {
		return nil
	}
	v := g[3+on:]
	if len(v) < 3 {
		return nil
	}
	cnt := int(v[1])<<8 | int(v[2])
	var ies [][]byte // each: id(2) crit(1) value
	at := 3
	for i := 0; i < cnt; i++ {
		if at+4 > len(v) {
			return nil
		}
		l, n := perLen(v, at+3)
		if l < 0 || at+3+n+l > len(v) {
			return nil
		}
		ies = append(ies, append(append([]byte{}, v[at:at+3]...), v[at+3+n:at+3+n+l]...))
		at += 3 + n + l
	}
	if at != len(v) {
		return nil
	}
	hit := false
	for i, ie := range ies {
		id := int(ie[0])<<8 | int(ie[1])
		switch {
		case id == 38 && !hit: // NAS-PDU ::= OCTET STRING
			ies[i] = append(ie[:3:3], 0xc0)
			hit = true
		case id == 1 && g[1] == 21 && !hit: // AMFName ::= PrintableString (SIZE(1..150, ...)): extension bit, then the general length
			ies[i] = append(ie[:3:3], 0x80, 0xc0)
			hit = true
		}
	}
	if !hit {
		return nil
	}
	nv := append([]byte{}, v[:3]...)
	for _, ie := range ies {
		nv = append(nv, ie[:3]...)
		nv = append(nv, putPerLen(len(ie)-3)...)
		nv = append(nv, ie[3:]...)
	}
	out := append([]byte{}, g[:3]...)
	out = append(out, putPerLen(len(nv))...)
	return append(out, nv...)
}

// Read is SCTPConn.Read.
func (w *World) Read(buf []byte) (int, error) {
	if w.closed {
		w.Log(Event{Ev: "read-after-close", UE: -1})
		return 0, syscall.EBADF
	}
	if len(w.queue) == 0 {
		// nothing in flight and nothing will ever be: the read can never return
		w.Log(Event{Ev: "hang", UE: -1, Info: map[string]interface{}{"reason": "Read with no downlink message in flight and the association open"}})
		os.Exit(HangExit)
	}
	p := &w.queue[0]
	if now := w.Now(); p.at > now {
		time.Sleep(time.Duration(p.at - now))
	}
	if w.Now() > simTimeCap {
		w.spin("still reading after 96 simulated hours")
	}
	if p.eof {
		if w.afterDown++; w.afterDown > spinCalls {
			w.spin("keeps reading from an association that has shut down")
		}
		if p.abort {
			w.Log(Event{Ev: "read", K: p.k, UE: -1, Err: "ECONNRESET"})
			return 0, syscall.ECONNRESET
		}
		w.Log(Event{Ev: "read", K: p.k, UE: -1, Err: "EOF"})
		return 0, io.EOF
	}
	n := copy(buf, p.bytes[p.off:])
	first := p.off == 0
	p.off += n
	done := p.off >= len(p.bytes)
	w.Log(Event{Ev: "read", K: p.k, UE: p.ue, Label: p.label, N: n, Info: map[string]interface{}{"first": first, "complete": done}})
	if done {
		w.queue = w.queue[1:]
	}
	return n, nil
}

// Close is SCTPConn.Close.
func (w *World) Close() error {
	w.Log(Event{Ev: "close", UE: -1, N: len(w.queue)})
	w.closed = true
	return nil
}

// DataPlane records a call into the XDP/GTP stub.
func (w *World) DataPlane(op string, info map[string]interface{}) {
	w.Log(Event{Ev: "dp", UE: -1, Label: op, Info: info})
}

// Summary writes the core's end state; rigs call it before exiting normally.
func (w *World) Summary(withKeys bool) {
	w.Log(Event{Ev: "summary", UE: -1, Info: map[string]interface{}{"core": w.Core.Summary(withKeys)}})
}
