// Package nas is the reference TS 24.501 codec for the NAS messages on the
// emulator's path: a strict parser for what the UE side sends and an encoder
// for what an AMF/SMF sends. Layouts are hard-coded from TS 24.501 clauses
// 8.2, 8.3 and 9.11; nothing is imported from the repository under test.
package nas

import (
	"fmt"
)

const (
	EPD5GMM = 0x7e
	EPD5GSM = 0x2e
)

// 5GMM message types.
const (
	MTRegistrationRequest     = 0x41
	MTRegistrationAccept      = 0x42
	MTRegistrationComplete    = 0x43
	MTDeregistrationRequestUE = 0x45
	MTDeregistrationAcceptUE  = 0x46
	MTServiceRequest          = 0x4c
	MTServiceAccept           = 0x4e
	MTConfigurationUpdateCmd  = 0x54
	MTAuthenticationRequest   = 0x56
	MTAuthenticationResponse  = 0x57
	MTSecurityModeCommand     = 0x5d
	MTSecurityModeComplete    = 0x5e
	MTULNASTransport          = 0x67
	MTDLNASTransport          = 0x68
)

// 5GSM message types.
const (
	MTPDUSessionEstablishmentRequest = 0xc1
	MTPDUSessionEstablishmentAccept  = 0xc2
	MTPDUSessionReleaseRequest       = 0xd1
	MTPDUSessionReleaseCommand       = 0xd3
	MTPDUSessionReleaseComplete      = 0xd4
)

type format int

const (
	fTV1  format = iota // half-octet IEI in bits 8..5, value in bits 4..1
	fTV                 // IEI + fixed number of value octets
	fTLV                // IEI + 1 length octet
	fTLVE               // IEI + 2 length octets
)

type ieDef struct {
	iei    byte
	f      format
	vlen   int // fTV: number of value octets
	lo, hi int // fTLV/fTLVE: allowed value length range (hi<0: unbounded)
}

// OptIE is one decoded optional information element.
type OptIE struct {
	IEI byte
	Val []byte
}

func findDef(defs []ieDef, b byte) *ieDef {
	for i := range defs {
		d := &defs[i]
		if d.f == fTV1 {
			if b&0xf0 == d.iei {
				return d
			}
		} else if b == d.iei {
			return d
		}
	}
	return nil
}

func parseOptional(b []byte, defs []ieDef, what string) ([]OptIE, error) {
	var out []OptIE
	seen := map[byte]bool{}
	for len(b) > 0 {
		d := findDef(defs, b[0])
		if d == nil {
			return out, fmt.Errorf("%s: IEI 0x%02x is not in the message table", what, b[0])
		}
		if seen[d.iei] {
			return out, fmt.Errorf("%s: IEI 0x%02x repeated", what, d.iei)
		}
		seen[d.iei] = true
		switch d.f {
		case fTV1:
			out = append(out, OptIE{d.iei, []byte{b[0] & 0x0f}})
			b = b[1:]
		case fTV:
			if len(b) < 1+d.vlen {
				return out, fmt.Errorf("%s: IE 0x%02x truncated", what, d.iei)
			}
			out = append(out, OptIE{d.iei, b[1 : 1+d.vlen]})
			b = b[1+d.vlen:]
		case fTLV, fTLVE:
			hdr := 2
			if d.f == fTLVE {
				hdr = 3
			}
			if len(b) < hdr {
				return out, fmt.Errorf("%s: IE 0x%02x truncated", what, d.iei)
			}
			n := int(b[1])
			if d.f == fTLVE {
				n = int(b[1])<<8 | int(b[2])
			}
			if len(b) < hdr+n {
				return out, fmt.Errorf("%s: IE 0x%02x length %d exceeds message", what, d.iei, n)
			}
			if n < d.lo || (d.hi >= 0 && n > d.hi) {
				return out, fmt.Errorf("%s: IE 0x%02x length %d outside %d..%d", what, d.iei, n, d.lo, d.hi)
			}
			out = append(out, OptIE{d.iei, b[hdr : hdr+n]})
			b = b[hdr+n:]
		}
	}
	return out, nil
}

func find(ies []OptIE, iei byte) *OptIE {
	for i := range ies {
		if ies[i].IEI == iei {
			return &ies[i]
		}
	}
	return nil
}

// ---------- security protected envelope ----------

// Envelope is a security protected 5GS NAS message split into its parts.
type Envelope struct {
	SHT   byte
	MAC   []byte
	SQN   byte
	Inner []byte // message as sent (possibly ciphered)
}

// SplitEnvelope parses `7E | sht | MAC | SQN | inner` or reports a plain message (SHT 0).
func SplitEnvelope(b []byte) (Envelope, error) {
	var e Envelope
	if len(b) < 3 {
		return e, fmt.Errorf("NAS message of %d octets", len(b))
	}
	if b[0] != EPD5GMM {
		return e, fmt.Errorf("outer EPD 0x%02x is not 5GMM", b[0])
	}
	if b[1]&0xf0 != 0 {
		return e, fmt.Errorf("spare half octet of the security header is 0x%x", b[1]>>4)
	}
	e.SHT = b[1] & 0x0f
	if e.SHT == 0 {
		e.Inner = b
		return e, nil
	}
	if e.SHT > 4 {
		return e, fmt.Errorf("security header type %d is reserved", e.SHT)
	}
	if len(b) < 7+3 {
		return e, fmt.Errorf("security protected message of %d octets", len(b))
	}
	e.MAC = b[2:6]
	e.SQN = b[6]
	e.Inner = b[7:]
	return e, nil
}

// Protect builds a security protected message from already-ciphered inner bytes.
func Protect(sht byte, mac []byte, sqn byte, inner []byte) []byte {
	out := []byte{EPD5GMM, sht}
	out = append(out, mac...)
	out = append(out, sqn)
	return append(out, inner...)
}

// ---------- identities ----------

// SUCI is a decoded null-scheme (or other) IMSI-format SUCI.
type SUCI struct {
	MCC, MNC, Routing string
	Scheme            byte
	KeyID             byte
	MSIN              string // null scheme only
	Output            []byte
}

func bcd(b []byte, what string) (string, error) {
	s := ""
	for i, o := range b {
		lo, hi := o&0x0f, o>>4
		if lo > 9 {
			return s, fmt.Errorf("%s: digit 0x%x", what, lo)
		}
		s += string('0' + lo)
		if hi == 0x0f {
			if i != len(b)-1 {
				return s, fmt.Errorf("%s: filler before the last octet", what)
			}
			break
		}
		if hi > 9 {
			return s, fmt.Errorf("%s: digit 0x%x", what, hi)
		}
		s += string('0' + hi)
	}
	return s, nil
}

// DecodePLMN decodes the 3-octet PLMN of TS 24.501 / TS 38.413.
func DecodePLMN(b []byte) (mcc, mnc string, err error) {
	if len(b) != 3 {
		return "", "", fmt.Errorf("PLMN of %d octets", len(b))
	}
	d := []byte{b[0] & 0xf, b[0] >> 4, b[1] & 0xf, b[1] >> 4, b[2] & 0xf, b[2] >> 4}
	// d[0..2] MCC, d[3] MNC digit 3 (or F), d[4] MNC digit 1, d[5] MNC digit 2
	for _, i := range []int{0, 1, 2, 4, 5} {
		if d[i] > 9 {
			return "", "", fmt.Errorf("PLMN %x: digit 0x%x", b, d[i])
		}
	}
	mcc = string([]byte{'0' + d[0], '0' + d[1], '0' + d[2]})
	mnc = string([]byte{'0' + d[4], '0' + d[5]})
	if d[3] != 0xf {
		if d[3] > 9 {
			return "", "", fmt.Errorf("PLMN %x: digit 0x%x", b, d[3])
		}
		mnc += string('0' + d[3])
	}
	return mcc, mnc, nil
}

// EncodePLMN is the inverse of DecodePLMN.
func EncodePLMN(mcc, mnc string) []byte {
	d := func(c byte) byte { return c - '0' }
	b := make([]byte, 3)
	b[0] = d(mcc[1])<<4 | d(mcc[0])
	if len(mnc) == 2 {
		b[1] = 0xf0 | d(mcc[2])
	} else {
		b[1] = d(mnc[2])<<4 | d(mcc[2])
	}
	b[2] = d(mnc[1])<<4 | d(mnc[0])
	return b
}

// DecodeSUCI decodes the value part of a 5GS mobile identity holding a SUCI.
func DecodeSUCI(b []byte) (SUCI, error) {
	var s SUCI
	if len(b) < 8 {
		return s, fmt.Errorf("5GS mobile identity of %d octets is too short for a SUCI", len(b))
	}
	if b[0]&0x07 != 1 {
		return s, fmt.Errorf("type of identity %d is not SUCI", b[0]&7)
	}
	if b[0]&0x88 != 0 {
		return s, fmt.Errorf("spare bits set in SUCI octet 1 (0x%02x)", b[0])
	}
	if f := (b[0] >> 4) & 7; f != 0 {
		return s, fmt.Errorf("SUPI format %d is not IMSI", f)
	}
	var err error
	if s.MCC, s.MNC, err = DecodePLMN(b[1:4]); err != nil {
		return s, err
	}
	// routing indicator: 1..4 digits, unused positions coded 1111 (TS 24.501 9.11.3.4)
	rd := []byte{b[4] & 0xf, b[4] >> 4, b[5] & 0xf, b[5] >> 4}
	for i, d := range rd {
		if d == 0xf {
			for _, e := range rd[i:] {
				if e != 0xf {
					return s, fmt.Errorf("routing indicator %x: digit after a filler", b[4:6])
				}
			}
			break
		}
		if d > 9 {
			return s, fmt.Errorf("routing indicator %x: digit 0x%x", b[4:6], d)
		}
		s.Routing += string('0' + d)
	}
	if len(s.Routing) == 0 {
		return s, fmt.Errorf("routing indicator empty")
	}
	if b[6]&0xf0 != 0 {
		return s, fmt.Errorf("spare bits set next to the protection scheme id (0x%02x)", b[6])
	}
	s.Scheme = b[6] & 0x0f
	s.KeyID = b[7]
	s.Output = b[8:]
	if s.Scheme == 0 {
		if s.MSIN, err = bcd(s.Output, "MSIN"); err != nil {
			return s, err
		}
		if len(s.MSIN) == 0 {
			return s, fmt.Errorf("empty MSIN")
		}
	}
	return s, nil
}

// GUTI is a 5G-GUTI.
type GUTI struct {
	MCC, MNC string
	Region   byte
	SetID    uint16
	Pointer  byte
	TMSI     [4]byte
}

func (g GUTI) encode() []byte {
	out := []byte{0xf2}
	out = append(out, EncodePLMN(g.MCC, g.MNC)...)
	out = append(out, g.Region, byte(g.SetID>>2), byte(g.SetID<<6)|g.Pointer&0x3f)
	return append(out, g.TMSI[:]...)
}

// ---------- uplink messages ----------

// Uplink is the parse of a plain 5GMM message from the UE.
type Uplink struct {
	Type byte
	// REGISTRATION REQUEST / DEREGISTRATION REQUEST / SERVICE REQUEST
	NgKSI     byte // 4 bits incl. TSC
	RegType   byte // 4 bits incl. FOR
	DeregType byte
	SvcType   byte
	Identity  []byte // 5GS mobile identity value
	// SERVICE REQUEST 5G-S-TMSI
	TMSIOctet1  byte // 1111 0 100 for a 5G-S-TMSI
	TMSISet     uint16
	TMSIPointer byte
	TMSI        []byte
	// UL NAS TRANSPORT
	ContainerType byte
	Container     []byte
	Opt           []OptIE
}

var regReqIEs = []ieDef{
	{0xC0, fTV1, 0, 0, 0}, {0x10, fTLV, 0, 1, 13}, {0x2E, fTLV, 0, 2, 8}, {0x2F, fTLV, 0, 2, 72},
	{0x52, fTV, 6, 0, 0}, {0x17, fTLV, 0, 2, 13}, {0x40, fTLV, 0, 2, 32}, {0x50, fTLV, 0, 2, 32},
	{0xB0, fTV1, 0, 0, 0}, {0x2B, fTLV, 0, 1, 1}, {0x77, fTLVE, 0, 11, 11}, {0x25, fTLV, 0, 2, 32},
	{0x18, fTLV, 0, 1, 1}, {0x51, fTLV, 0, 1, 1}, {0x70, fTLVE, 0, 0, -1}, {0x74, fTLVE, 0, 0, 808},
	{0x80, fTV1, 0, 0, 0}, {0x7B, fTLVE, 0, 1, -1}, {0x90, fTV1, 0, 0, 0}, {0x53, fTLV, 0, 1, 1},
	{0x41, fTLV, 0, 3, 3}, {0x42, fTLV, 0, 4, 6}, {0x6A, fTLV, 0, 1, 1}, {0x71, fTLVE, 0, 0, -1},
	{0x60, fTLV, 0, 1, 1},
}
var authRespIEs = []ieDef{{0x2D, fTLV, 0, 16, 16}, {0x78, fTLVE, 0, 4, 1500}}
var smcCompleteIEs = []ieDef{{0x77, fTLVE, 0, 9, 9}, {0x71, fTLVE, 0, 0, -1}, {0x78, fTLVE, 0, 7, -1}}
var regCompleteIEs = []ieDef{{0x73, fTLVE, 0, 17, -1}}
var ulNasTransportIEs = []ieDef{
	{0x12, fTV, 1, 0, 0}, {0x59, fTV, 1, 0, 0}, {0x80, fTV1, 0, 0, 0}, {0x22, fTLV, 0, 1, 8},
	{0x25, fTLV, 0, 1, 100}, {0x24, fTLV, 0, 1, -1}, {0xA0, fTV1, 0, 0, 0}, {0xF0, fTV1, 0, 0, 0},
}
var svcReqIEs = []ieDef{{0x40, fTLV, 0, 2, 32}, {0x50, fTLV, 0, 2, 32}, {0x25, fTLV, 0, 2, 32}, {0x71, fTLVE, 0, 0, -1}}

func lvE(b []byte, what string) (val, rest []byte, err error) {
	if len(b) < 2 {
		return nil, nil, fmt.Errorf("%s: missing length", what)
	}
	n := int(b[0])<<8 | int(b[1])
	if len(b) < 2+n {
		return nil, nil, fmt.Errorf("%s: length %d exceeds message", what, n)
	}
	return b[2 : 2+n], b[2+n:], nil
}

// ParseUplink parses a plain 5GMM message sent by the UE.
func ParseUplink(b []byte) (*Uplink, error) {
	if len(b) < 3 {
		return nil, fmt.Errorf("plain 5GMM message of %d octets", len(b))
	}
	if b[0] != EPD5GMM {
		return nil, fmt.Errorf("EPD 0x%02x is not 5GMM", b[0])
	}
	if b[1] != 0 {
		return nil, fmt.Errorf("plain 5GMM message with security header octet 0x%02x", b[1])
	}
	u := &Uplink{Type: b[2]}
	body := b[3:]
	var err error
	switch u.Type {
	case MTRegistrationRequest:
		if len(body) < 1 {
			return nil, fmt.Errorf("REGISTRATION REQUEST truncated")
		}
		u.RegType, u.NgKSI = body[0]&0x0f, body[0]>>4
		if u.Identity, body, err = lvE(body[1:], "5GS mobile identity"); err != nil {
			return nil, err
		}
		u.Opt, err = parseOptional(body, regReqIEs, "REGISTRATION REQUEST")
	case MTAuthenticationResponse:
		u.Opt, err = parseOptional(body, authRespIEs, "AUTHENTICATION RESPONSE")
	case MTSecurityModeComplete:
		u.Opt, err = parseOptional(body, smcCompleteIEs, "SECURITY MODE COMPLETE")
	case MTRegistrationComplete:
		u.Opt, err = parseOptional(body, regCompleteIEs, "REGISTRATION COMPLETE")
	case MTULNASTransport:
		if len(body) < 1 {
			return nil, fmt.Errorf("UL NAS TRANSPORT truncated")
		}
		if body[0]&0xf0 != 0 {
			return nil, fmt.Errorf("UL NAS TRANSPORT spare half octet 0x%x", body[0]>>4)
		}
		u.ContainerType = body[0] & 0x0f
		if u.Container, body, err = lvE(body[1:], "payload container"); err != nil {
			return nil, err
		}
		if len(u.Container) == 0 {
			return nil, fmt.Errorf("payload container empty")
		}
		u.Opt, err = parseOptional(body, ulNasTransportIEs, "UL NAS TRANSPORT")
	case MTServiceRequest:
		if len(body) < 1 {
			return nil, fmt.Errorf("SERVICE REQUEST truncated")
		}
		u.NgKSI, u.SvcType = body[0]&0x0f, body[0]>>4
		var id []byte
		if id, body, err = lvE(body[1:], "5G-S-TMSI"); err != nil {
			return nil, err
		}
		if len(id) != 7 {
			return nil, fmt.Errorf("5G-S-TMSI of %d octets", len(id))
		}
		u.TMSIOctet1 = id[0]
		u.TMSISet = uint16(id[1])<<2 | uint16(id[2])>>6
		u.TMSIPointer = id[2] & 0x3f
		u.TMSI = id[3:7]
		u.Opt, err = parseOptional(body, svcReqIEs, "SERVICE REQUEST")
	case MTDeregistrationRequestUE:
		if len(body) < 1 {
			return nil, fmt.Errorf("DEREGISTRATION REQUEST truncated")
		}
		u.DeregType, u.NgKSI = body[0]&0x0f, body[0]>>4
		if u.Identity, body, err = lvE(body[1:], "5GS mobile identity"); err != nil {
			return nil, err
		}
		if len(body) != 0 {
			err = fmt.Errorf("DEREGISTRATION REQUEST: %d trailing octets", len(body))
		}
	default:
		return u, fmt.Errorf("5GMM message type 0x%02x is not expected from the UE on this path", u.Type)
	}
	return u, err
}

func (u *Uplink) Get(iei byte) []byte {
	if ie := find(u.Opt, iei); ie != nil {
		return ie.Val
	}
	return nil
}

func (u *Uplink) Has(iei byte) bool { return find(u.Opt, iei) != nil }

// SM is the parse of a 5GSM message from the UE.
type SM struct {
	PSI, PTI, Type byte
	MaxRate        []byte
	Opt            []OptIE
}

var estReqIEs = []ieDef{
	{0x90, fTV1, 0, 0, 0}, {0xA0, fTV1, 0, 0, 0}, {0x28, fTLV, 0, 1, 13}, {0x55, fTV, 2, 0, 0},
	{0xB0, fTV1, 0, 0, 0}, {0x39, fTLV, 0, 1, 253}, {0x7B, fTLVE, 0, 1, -1}, {0x66, fTLV, 0, 3, 255},
	{0x6E, fTLV, 0, 1, 12}, {0x1F, fTLV, 0, 1, 1},
}
var relReqIEs = []ieDef{{0x59, fTV, 1, 0, 0}, {0x7B, fTLVE, 0, 1, -1}}

// ParseSM parses a 5GSM message sent by the UE.
func ParseSM(b []byte) (*SM, error) {
	if len(b) < 4 {
		return nil, fmt.Errorf("5GSM message of %d octets", len(b))
	}
	if b[0] != EPD5GSM {
		return nil, fmt.Errorf("EPD 0x%02x is not 5GSM", b[0])
	}
	m := &SM{PSI: b[1], PTI: b[2], Type: b[3]}
	body := b[4:]
	var err error
	switch m.Type {
	case MTPDUSessionEstablishmentRequest:
		if len(body) < 2 {
			return nil, fmt.Errorf("PDU SESSION ESTABLISHMENT REQUEST truncated")
		}
		m.MaxRate = body[:2]
		m.Opt, err = parseOptional(body[2:], estReqIEs, "PDU SESSION ESTABLISHMENT REQUEST")
	case MTPDUSessionReleaseRequest:
		m.Opt, err = parseOptional(body, relReqIEs, "PDU SESSION RELEASE REQUEST")
	case MTPDUSessionReleaseComplete:
		m.Opt, err = parseOptional(body, relReqIEs, "PDU SESSION RELEASE COMPLETE")
	default:
		return m, fmt.Errorf("5GSM message type 0x%02x is not expected from the UE on this path", m.Type)
	}
	return m, err
}

// ---------- downlink messages ----------

func tlv(iei byte, v []byte) []byte { return append([]byte{iei, byte(len(v))}, v...) }
func tlvE(iei byte, v []byte) []byte {
	return append([]byte{iei, byte(len(v) >> 8), byte(len(v))}, v...)
}

// AuthenticationRequest builds the plain message.
func AuthenticationRequest(ngKSI byte, abba, rnd, autn []byte) []byte {
	out := []byte{EPD5GMM, 0, MTAuthenticationRequest, ngKSI & 0x0f, byte(len(abba))}
	out = append(out, abba...)
	out = append(out, 0x21)
	out = append(out, rnd...)
	out = append(out, tlv(0x20, autn)...)
	return out
}

// SMCOptions are the optional parts of a SECURITY MODE COMMAND.
type SMCOptions struct {
	IMEISVRequest bool
	Additional    *byte  // additional 5G security information octet
	ABBA          []byte // nil = absent
}

func SecurityModeCommand(cipher, integ, ngKSI byte, replayed []byte, o SMCOptions) []byte {
	out := []byte{EPD5GMM, 0, MTSecurityModeCommand, cipher<<4 | integ&0x0f, ngKSI & 0x0f, byte(len(replayed))}
	out = append(out, replayed...)
	if o.IMEISVRequest {
		out = append(out, 0xE1)
	}
	if o.Additional != nil {
		out = append(out, tlv(0x36, []byte{*o.Additional})...)
	}
	if o.ABBA != nil {
		out = append(out, tlv(0x38, o.ABBA)...)
	}
	return out
}

// RegAcceptOptions are the optional parts of a REGISTRATION ACCEPT.
type RegAcceptOptions struct {
	GUTI         *GUTI
	TAIList      []byte // value part, nil = absent
	AllowedNSSAI []byte
	NetFeature   []byte
	T3512        *byte
	// one-octet (type 1) IEs of table 8.2.7.1.1: MICO indication (B-) and network slicing indication
	// (9-) come before T3512, the NSSAI inclusion mode (A-) after it
	MICO, NetSlicing, NSSAIInclusion *byte
}

func RegistrationAccept(o RegAcceptOptions) []byte {
	out := []byte{EPD5GMM, 0, MTRegistrationAccept, 1, 0x01}
	if o.GUTI != nil {
		out = append(out, tlvE(0x77, o.GUTI.encode())...)
	}
	if o.TAIList != nil {
		out = append(out, tlv(0x54, o.TAIList)...)
	}
	if o.AllowedNSSAI != nil {
		out = append(out, tlv(0x15, o.AllowedNSSAI)...)
	}
	if o.NetFeature != nil {
		out = append(out, tlv(0x21, o.NetFeature)...)
	}
	if o.MICO != nil {
		out = append(out, 0xB0|*o.MICO&0x0f)
	}
	if o.NetSlicing != nil {
		out = append(out, 0x90|*o.NetSlicing&0x0f)
	}
	if o.T3512 != nil {
		out = append(out, tlv(0x5E, []byte{*o.T3512})...)
	}
	if o.NSSAIInclusion != nil {
		out = append(out, 0xA0|*o.NSSAIInclusion&0x0f)
	}
	return out
}

func ConfigurationUpdateCommand(ind *byte, guti *GUTI) []byte {
	out := []byte{EPD5GMM, 0, MTConfigurationUpdateCmd}
	if ind != nil {
		out = append(out, 0xD0|*ind&0x0f)
	}
	if guti != nil {
		out = append(out, tlvE(0x77, guti.encode())...)
	}
	return out
}

func ServiceAccept(psiStatus, reactivation []byte) []byte {
	out := []byte{EPD5GMM, 0, MTServiceAccept}
	if psiStatus != nil {
		out = append(out, tlv(0x50, psiStatus)...)
	}
	if reactivation != nil {
		out = append(out, tlv(0x26, reactivation)...)
	}
	return out
}

func DeregistrationAccept() []byte { return []byte{EPD5GMM, 0, MTDeregistrationAcceptUE} }

// DLNASTransport wraps an N1 SM container.
func DLNASTransport(container []byte, psi *byte, cause *byte) []byte {
	out := []byte{EPD5GMM, 0, MTDLNASTransport, 0x01, byte(len(container) >> 8), byte(len(container))}
	out = append(out, container...)
	if psi != nil {
		out = append(out, 0x12, *psi)
	}
	if cause != nil {
		out = append(out, 0x58, *cause)
	}
	return out
}

// EstAccept describes a PDU SESSION ESTABLISHMENT ACCEPT; optional IEs are
// emitted in the order of TS 24.501 table 8.3.2.1.1.
type EstAccept struct {
	PSI, PTI     byte
	SSCMode      byte
	SessionType  byte
	QoSRules     []byte
	AMBR         []byte // 6 octets
	Cause        *byte
	PDUAddress   []byte // value part: type octet + address
	RQTimer      *byte
	SNSSAI       []byte
	AlwaysOn     *byte
	MappedEPS    []byte
	EAP          []byte
	QoSFlowDescs []byte
	EPCO         []byte
	DNN          []byte
	NetFeature   []byte
	RateControl  []byte // 2 octets
	ATSSS        []byte
	CPOnly       bool
	IPHdrComp    []byte
	EthHdrComp   []byte // 1 octet
}

func (a EstAccept) Encode() []byte {
	out := []byte{EPD5GSM, a.PSI, a.PTI, MTPDUSessionEstablishmentAccept, a.SSCMode<<4 | a.SessionType&0x07}
	out = append(out, byte(len(a.QoSRules)>>8), byte(len(a.QoSRules)))
	out = append(out, a.QoSRules...)
	out = append(out, byte(len(a.AMBR)))
	out = append(out, a.AMBR...)
	if a.Cause != nil {
		out = append(out, 0x59, *a.Cause)
	}
	if a.PDUAddress != nil {
		out = append(out, tlv(0x29, a.PDUAddress)...)
	}
	if a.RQTimer != nil {
		out = append(out, 0x56, *a.RQTimer)
	}
	if a.SNSSAI != nil {
		out = append(out, tlv(0x22, a.SNSSAI)...)
	}
	if a.AlwaysOn != nil {
		out = append(out, 0x80|*a.AlwaysOn&1)
	}
	if a.MappedEPS != nil {
		out = append(out, tlvE(0x75, a.MappedEPS)...)
	}
	if a.EAP != nil {
		out = append(out, tlvE(0x78, a.EAP)...)
	}
	if a.QoSFlowDescs != nil {
		out = append(out, tlvE(0x79, a.QoSFlowDescs)...)
	}
	if a.EPCO != nil {
		out = append(out, tlvE(0x7B, a.EPCO)...)
	}
	if a.DNN != nil {
		out = append(out, tlv(0x25, a.DNN)...)
	}
	if a.NetFeature != nil {
		out = append(out, tlv(0x17, a.NetFeature)...)
	}
	if a.RateControl != nil {
		out = append(out, tlv(0x18, a.RateControl)...)
	}
	if a.ATSSS != nil {
		out = append(out, tlvE(0x77, a.ATSSS)...)
	}
	if a.CPOnly {
		out = append(out, 0xC1)
	}
	if a.IPHdrComp != nil {
		out = append(out, tlv(0x66, a.IPHdrComp)...)
	}
	if a.EthHdrComp != nil {
		out = append(out, tlv(0x1F, a.EthHdrComp)...)
	}
	return out
}

func ReleaseCommand(psi, pti, cause byte) []byte {
	return []byte{EPD5GSM, psi, pti, MTPDUSessionReleaseCommand, cause}
}
