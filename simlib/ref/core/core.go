// Package core is the reference 5G core (AMF + AUSF/UDM + SMF/UPF control)
// that sits at the far end of the simulated N2 association. It is a pure
// function of the uplink messages it has received and of the explicit
// scenario: it draws nothing itself and reads no clock. It judges every
// uplink message against the rules of the property statements and, in
// report-and-tolerate mode, keeps the conversation going after a violation.
package core

import (
	"bytes"
	"encoding/hex"
	"fmt"
	"net"
	"os"
	"strconv"

	"verifsim/kernel"
	"verifsim/ref/crypto"
	"verifsim/ref/nas"
	"verifsim/ref/ngap"
	"verifsim/scn"
)

// Violation is one broken rule, identified by rule id and call site.
type Violation struct {
	Rule   string `json:"rule"`
	Site   string `json:"site"`
	Detail string `json:"detail"`
}

// Out is one downlink message the core wants delivered.
type Out struct {
	Bytes []byte
	Label string
	UE    int
}

// Result is the verdict on one uplink message.
type Result struct {
	Label string
	UE    int
	Viol  []Violation
	Out   []Out
	Info  map[string]interface{}
}

// UE states.
const (
	StDeregistered = "DEREGISTERED"
	StAuthPending  = "AUTH-PENDING"
	StSMCPending   = "SMC-PENDING"
	StICSPending   = "ICS-PENDING"
	StRegistered   = "REGISTERED"
	StDeregPending = "DEREG-RELEASE-PENDING"
	StGone         = "RELEASED"
)

// UE is the network's context for one subscriber.
type UE struct {
	Ordinal int
	SUPI    string // digits
	RanID   int64
	AmfID   int64
	State   string
	P       scn.UEParams

	AKA        crypto.AKA5G
	EncAlg     byte
	IntAlg     byte
	KNASenc    []byte
	KNASint    []byte
	ULNext     uint32
	ULUsed     map[uint32]bool
	DLNext     uint32
	SecCap     []byte
	RegReq     []byte
	gotICSResp bool
	gotRegCmpl bool

	PSI         int // -1 none
	SessActive  bool
	SessEverEst bool
	EstPTI      byte
	RelPending  bool
	RelCmdSent  bool
	RelCmdAt    int64
	GotRelResp  bool
	SvcPending  bool
	SvcWithPDU  bool
	CtxRelAt    int64

	// counters of completed procedures, for the end-of-run oracle
	NEst, NSvc, NRel, NDereg int
}

// Core is the reference core for one association.
type Core struct {
	S         *scn.Scenario
	PLMN      []byte
	SetupDone bool
	UEs       []*UE
	byRan     map[int64]*UE
	byAmf     map[int64]*UE
	bySUPI    map[string]*UE
	rng       *kernel.Rand
	k, opc    []byte
	cfgErr    string
	// serving PLMN: the configured one, or - after a second NG Setup the scenario announces - that one
	servMCC, servMNC string
	nSetups          int

	cur *Result
	now int64
}

func New(s *scn.Scenario) *Core {
	c := &Core{S: s, byRan: map[int64]*UE{}, byAmf: map[int64]*UE{}, bySUPI: map[string]*UE{}}
	c.PLMN = nas.EncodePLMN(s.Config.MCC, s.Config.MNC)
	c.servMCC, c.servMNC = s.Config.MCC, s.Config.MNC
	c.rng = kernel.New(s.UESeed)
	var err error
	c.k, err = hex.DecodeString(s.Config.K)
	if err != nil || len(c.k) != 16 {
		c.cfgErr = "scenario K is not 16 octets of hex"
	}
	if s.Config.OPC != "" {
		c.opc, err = hex.DecodeString(s.Config.OPC)
	} else {
		var op []byte
		op, err = hex.DecodeString(s.Config.OP)
		if err == nil && len(op) == 16 && len(c.k) == 16 {
			c.opc = crypto.OPc(c.k, op)
		}
	}
	if err != nil || len(c.opc) != 16 {
		c.cfgErr = "scenario OP/OPc is not 16 octets of hex"
	}
	if bad, _ := s.Rig["badcred"].(bool); bad {
		// the configuration is deliberately malformed (negative run): the network side has no valid
		// record for this subscriber and challenges with placeholder credentials; the run only asks
		// whether the emulator answers at all
		if len(c.k) != 16 {
			c.k = make([]byte, 16)
		}
		if len(c.opc) != 16 {
			c.opc = make([]byte, 16)
		}
		c.cfgErr = ""
	}
	return c
}

func (c *Core) viol(rule, format string, a ...interface{}) {
	c.cur.Viol = append(c.cur.Viol, Violation{Rule: rule, Site: c.cur.Label, Detail: fmt.Sprintf(format, a...)})
}

func (c *Core) out(label string, ue int, p *ngap.PDU) {
	b, err := p.Encode()
	if err != nil {
		panic(fmt.Sprintf("reference core cannot encode %s: %v", label, err))
	}
	c.cur.Out = append(c.cur.Out, Out{Bytes: b, Label: label, UE: ue})
}

func must(b []byte, err error) []byte {
	if err != nil {
		panic("reference encoder: " + err.Error())
	}
	return b
}

// ueParams returns the network's choices for the UE with the given ordinal.
func (c *Core) ueParams(ord int) scn.UEParams {
	if ord < len(c.S.UEs) {
		return c.S.UEs[ord]
	}
	return DeriveUEParams(c.S.UESeed, ord)
}

// DeriveUEParams is the deterministic generator for UEs beyond the explicit list.
func DeriveUEParams(seed uint64, ord int) scn.UEParams {
	r := kernel.New(seed).Sub("ue" + strconv.Itoa(ord))
	var p scn.UEParams
	p.RAND = hex.EncodeToString(r.Bytes(16))
	p.SQN = hex.EncodeToString(r.Bytes(6))
	p.AMFField = "8000"
	p.AmfUeID = int64(1000000 + ord)
	p.NgKSI = r.Intn(7)
	p.TMSI = fmt.Sprintf("%08x", 0x10000000+ord)
	p.IDPairInRel = true
	p.UEIP = fmt.Sprintf("10.%d.%d.%d", 45+ord/65536%200, ord/256%256, ord%256)
	p.TEID = fmt.Sprintf("%08x", 0x100+ord)
	p.UPFIP = "192.168.70.134"
	p.QoSRuleLen = 6
	p.AMBRDL, p.AMBRUL = 1000000000, 500000000
	p.FiveQI = 9
	return p
}

func mustHex(s string, n int, what string) []byte {
	b, err := hex.DecodeString(s)
	if err != nil || len(b) != n {
		panic(fmt.Sprintf("scenario field %s=%q is not %d octets of hex", what, s, n))
	}
	return b
}

// Handle judges one uplink message that arrives at time now (ns).
func (c *Core) Handle(now int64, b []byte) (res Result) {
	res = Result{Label: "undecodable", UE: -1, Info: map[string]interface{}{}}
	c.cur = &res
	c.now = now
	if c.cfgErr != "" {
		// a malformed scenario is the simulator's own mistake, never a verdict about the code under test
		fmt.Fprintln(os.Stderr, "vsim: invalid scenario:", c.cfgErr)
		os.Exit(96)
		panic(c.cfgErr)
	}
	p, err := ngap.Decode(b)
	if err != nil {
		c.viol("ngap.decode", "%v", err)
		return
	}
	res.Label = p.Name()
	switch {
	case p.Kind == ngap.Initiating && p.Proc == ngap.ProcNGSetup:
		c.ngSetup(p)
	case p.Kind == ngap.Initiating && p.Proc == ngap.ProcInitialUEMessage:
		c.initialUE(p)
	case p.Kind == ngap.Initiating && p.Proc == ngap.ProcUplinkNASTransport:
		c.uplinkNAS(p)
	case p.Kind == ngap.Successful && p.Proc == ngap.ProcInitialContextSetup:
		c.icsResponse(p)
	case p.Kind == ngap.Successful && p.Proc == ngap.ProcPDUSessionResourceSetup:
		c.setupResponse(p)
	case p.Kind == ngap.Successful && p.Proc == ngap.ProcPDUSessionResourceRelease:
		c.releaseResponse(p)
	case p.Kind == ngap.Successful && p.Proc == ngap.ProcUEContextRelease:
		c.ctxReleaseComplete(p)
	default:
		c.viol("ngap.unexpected", "message %s is not one a gNB sends on this path", p.Name())
	}
	if res.UE >= 0 && res.UE < len(c.UEs) {
		ue := c.UEs[res.UE]
		res.Info["st"] = map[string]interface{}{"state": ue.State, "psi": ue.PSI, "active": ue.SessActive,
			"est": ue.NEst, "svc": ue.NSvc, "rel": ue.NRel, "dereg": ue.NDereg, "ul_next": ue.ULNext}
	}
	return
}

func (c *Core) checkCrit(p *ngap.PDU, want int) {
	if p.Crit != want {
		c.viol("ngap.criticality", "message criticality %d, TS 38.413 says %d", p.Crit, want)
	}
}

func (c *Core) checkTable(p *ngap.PDU, spec []ngap.IESpec) {
	for _, e := range ngap.CheckIEs(p.IEs, spec) {
		c.viol("ngap.ies", "%s", e)
	}
}

func (c *Core) checkPLMN(rule string, got []byte, what string) {
	if !bytes.Equal(got, c.PLMN) {
		mcc, mnc, err := nas.DecodePLMN(got)
		c.viol(rule, "%s is %x (mcc=%s mnc=%s err=%v), configured PLMN %s/%s encodes as %x", what, got, mcc, mnc, err, c.servMCC, c.servMNC, c.PLMN)
	}
}

func (c *Core) checkULI(p *ngap.PDU) {
	ie := p.Find(ngap.IDUserLocationInformation)
	if ie == nil {
		return
	}
	u, err := ngap.DecULI(ie.Val)
	if err != nil {
		c.viol("ngap.ie-value", "%v", err)
		return
	}
	c.checkPLMN("plmn.uli", u.CGIPLMN, "NR-CGI PLMN of UserLocationInformation")
	c.checkPLMN("plmn.uli", u.TAIPLMN, "TAI PLMN of UserLocationInformation")
	c.cur.Info["uli_plmn"] = hex.EncodeToString(u.TAIPLMN)
}

var ngSetupRequestIEs = []ngap.IESpec{
	{ngap.IDGlobalRANNodeID, ngap.Reject, true}, {ngap.IDRANNodeName, ngap.Ignore, false},
	{ngap.IDSupportedTAList, ngap.Reject, true}, {ngap.IDDefaultPagingDRX, ngap.Ignore, true},
}

func (c *Core) ngSetup(p *ngap.PDU) {
	c.cur.Label = "NGSetupRequest"
	c.checkCrit(p, ngap.Reject)
	c.checkTable(p, ngSetupRequestIEs)
	cfg := c.S.Config
	c.nSetups++
	if c.SetupDone {
		if rp := c.S.ResetupPLMN; c.nSetups == 2 && len(rp) >= 5 {
			// the gNB sets the interface up again, now serving another PLMN (TS 38.413 8.7.1: the
			// procedure re-initialises the interface and releases the UE contexts)
			c.servMCC, c.servMNC = rp[:3], rp[3:]
			c.PLMN = nas.EncodePLMN(c.servMCC, c.servMNC)
			for _, u := range c.UEs {
				u.State = StGone
			}
		} else {
			c.viol("ngap.unexpected", "second NGSetupRequest on the association")
		}
	}
	if ie := p.Find(ngap.IDGlobalRANNodeID); ie != nil {
		g, err := ngap.DecGlobalRANNodeID(ie.Val)
		if err != nil {
			c.viol("ngap.ie-value", "%v", err)
		} else {
			c.checkPLMN("plmn.ngsetup", g.PLMN, "GlobalGNB-ID PLMN")
			c.cur.Info["ngsetup_plmn"] = hex.EncodeToString(g.PLMN)
			want, _ := hex.DecodeString(cfg.GnbIDHex)
			if g.BitLen != cfg.GnbBitLength {
				c.viol("cfg.gnb_bitlength", "gNB-ID has %d bits, configured %d", g.BitLen, cfg.GnbBitLength)
			} else if !bytes.Equal(g.ID, maskBits(want, cfg.GnbBitLength)) {
				c.viol("cfg.gnb_id", "gNB-ID bits %x, configured %x/%d", g.ID, want, cfg.GnbBitLength)
			}
			c.cur.Info["gnb_id"] = hex.EncodeToString(g.ID)
		}
	}
	if ie := p.Find(ngap.IDRANNodeName); ie != nil {
		s, err := ngap.DecRANNodeName(ie.Val)
		if err != nil {
			c.viol("ngap.ie-value", "%v", err)
			c.viol("cfg.gnb_name", "RANNodeName cannot be decoded (%v), configured %q", err, cfg.GnbName)
		} else if s != cfg.GnbName {
			c.viol("cfg.gnb_name", "RANNodeName %q, configured %q", s, cfg.GnbName)
		}
	} else {
		c.viol("cfg.gnb_name", "RANNodeName absent, configured %q", cfg.GnbName)
	}
	if ie := p.Find(ngap.IDSupportedTAList); ie != nil {
		tas, err := ngap.DecSupportedTAList(ie.Val)
		if err != nil {
			c.viol("ngap.ie-value", "%v", err)
		}
		for _, ta := range tas {
			for _, bp := range ta.PLMNs {
				c.checkPLMN("plmn.ngsetup", bp.PLMN, "BroadcastPLMN")
			}
		}
	}
	if ie := p.Find(ngap.IDDefaultPagingDRX); ie != nil {
		if _, err := ngap.DecEnum(ie.Val, 4, true, "DefaultPagingDRX"); err != nil {
			c.viol("ngap.ie-value", "%v", err)
		}
	}
	c.SetupDone = true
	a := c.S.AMF
	gp, _, _ := c.guamiPLMN()
	guami := ngap.GUAMI{PLMN: gp, Region: byte(a.Region), SetID: uint16(a.SetID), Pointer: byte(a.Pointer)}
	slices := []ngap.SNSSAI{c.cfgSNSSAI()}
	for i := 1; i < a.NSlices; i++ {
		slices = append(slices, ngap.SNSSAI{SST: byte(i + 1)})
	}
	// an AMF may serve several PLMNs: the gNB's own one need be neither the first nor the last
	var guamis []ngap.ServedGUAMI
	var plmns []ngap.PLMNSupport
	other := func(l []string) {
		for _, p := range l {
			if len(p) < 5 {
				continue
			}
			enc := nas.EncodePLMN(p[:3], p[3:])
			guamis = append(guamis, ngap.ServedGUAMI{GUAMI: ngap.GUAMI{PLMN: enc, Region: byte(a.Region), SetID: uint16(a.SetID), Pointer: byte(a.Pointer)}})
			plmns = append(plmns, ngap.PLMNSupport{PLMN: enc, Slices: []ngap.SNSSAI{{SST: 1}}})
		}
	}
	other(a.PLMNsBefore)
	guamis = append(guamis, ngap.ServedGUAMI{GUAMI: guami, Backup: a.Backup})
	if !bytes.Equal(gp, c.PLMN) {
		plmns = append(plmns, ngap.PLMNSupport{PLMN: gp, Slices: []ngap.SNSSAI{{SST: 1}}})
	}
	plmns = append(plmns, ngap.PLMNSupport{PLMN: c.PLMN, Slices: slices})
	other(a.PLMNsAfter)
	resp := &ngap.PDU{Kind: ngap.Successful, Proc: ngap.ProcNGSetup, Crit: ngap.Reject, IEs: []ngap.IE{
		{ngap.IDAMFName, ngap.Reject, must(ngap.EncPrintable(a.Name))},
		{ngap.IDServedGUAMIList, ngap.Reject, must(ngap.EncServedGUAMIList(guamis))},
		{ngap.IDRelativeAMFCapacity, ngap.Ignore, must(ngap.EncRelativeAMFCapacity(a.Capacity))},
		{ngap.IDPLMNSupportList, ngap.Reject, must(ngap.EncPLMNSupportList(plmns))},
	}}
	c.out("NGSetupResponse", -1, resp)
}

func maskBits(b []byte, n int) []byte {
	out := make([]byte, (n+7)/8)
	copy(out, b)
	if n%8 != 0 && len(out) > 0 {
		out[len(out)-1] &= 0xff << uint(8-n%8)
	}
	return out
}

func (c *Core) cfgSNSSAI() ngap.SNSSAI {
	s := ngap.SNSSAI{SST: byte(c.S.Config.SST)}
	if sd, err := hex.DecodeString(c.S.Config.SD); err == nil && len(sd) == 3 {
		s.SD = sd
	}
	return s
}

var initialUEMessageIEs = []ngap.IESpec{
	{ngap.IDRANUENGAPID, ngap.Reject, true}, {ngap.IDNASPDU, ngap.Reject, true},
	{ngap.IDUserLocationInformation, ngap.Reject, true}, {ngap.IDRRCEstablishmentCause, ngap.Ignore, true},
	{ngap.IDFiveGSTMSI, ngap.Reject, false}, {ngap.IDAMFSetID, ngap.Ignore, false},
	{ngap.IDUEContextRequest, ngap.Ignore, false}, {ngap.IDAllowedNSSAI, ngap.Reject, false},
}

func (c *Core) needSetup() {
	if !c.SetupDone {
		c.viol("prereq.ngsetup", "UE-associated signalling before NG Setup completed")
	}
}

func (c *Core) initialUE(p *ngap.PDU) {
	c.cur.Label = "InitialUEMessage"
	c.needSetup()
	c.checkCrit(p, ngap.Ignore)
	c.checkTable(p, initialUEMessageIEs)
	c.checkULI(p)
	var ranID int64 = -1
	if ie := p.Find(ngap.IDRANUENGAPID); ie != nil {
		v, err := ngap.DecRANUENGAPID(ie.Val)
		if err != nil {
			c.viol("ngap.ie-value", "%v", err)
		} else {
			ranID = v
		}
	}
	if ie := p.Find(ngap.IDRRCEstablishmentCause); ie != nil {
		if _, err := ngap.DecEnum(ie.Val, 10, true, "RRCEstablishmentCause"); err != nil {
			c.viol("ngap.ie-value", "%v", err)
		}
	}
	if ie := p.Find(ngap.IDUEContextRequest); ie != nil {
		if _, err := ngap.DecEnum(ie.Val, 1, true, "UEContextRequest"); err != nil {
			c.viol("ngap.ie-value", "%v", err)
		}
	}
	var tmsiIE *ngap.FiveGSTMSI
	if ie := p.Find(ngap.IDFiveGSTMSI); ie != nil {
		t, err := ngap.DecFiveGSTMSI(ie.Val)
		if err != nil {
			c.viol("ngap.ie-value", "%v", err)
		} else {
			tmsiIE = &t
		}
	}
	ie := p.Find(ngap.IDNASPDU)
	if ie == nil || ranID < 0 {
		return
	}
	pdu, err := ngap.DecOctetString(ie.Val, "NAS-PDU")
	if err != nil {
		c.viol("ngap.ie-value", "%v", err)
		return
	}
	env, err := nas.SplitEnvelope(pdu)
	if err != nil {
		c.viol("nas.decode", "%v", err)
		return
	}
	if env.SHT == 0 {
		c.registrationRequest(ranID, pdu)
		return
	}
	c.serviceRequest(ranID, env, tmsiIE)
}

func (c *Core) registrationRequest(ranID int64, plain []byte) {
	c.cur.Label = "InitialUEMessage/RegistrationRequest"
	u, err := nas.ParseUplink(plain)
	if err != nil {
		c.viol("nas.decode", "%v", err)
		return
	}
	if u.Type != nas.MTRegistrationRequest {
		c.viol("nas.unexpected", "plain initial NAS message type 0x%02x", u.Type)
		return
	}
	ord := len(c.UEs)
	c.cur.UE = ord
	ue := &UE{Ordinal: ord, RanID: ranID, State: StAuthPending, P: c.ueParams(ord), PSI: -1, ULUsed: map[uint32]bool{}}
	ue.AmfID = ue.P.AmfUeID
	c.UEs = append(c.UEs, ue)
	if old := c.byRan[ranID]; old != nil && old.State != StGone {
		c.viol("ident.ran-ue-ngap-id", "RAN-UE-NGAP-ID %d is already in use by UE #%d", ranID, old.Ordinal)
	}
	c.byRan[ranID] = ue
	c.byAmf[ue.AmfID] = ue
	if u.RegType&0x07 != 1 {
		c.viol("nas.regtype", "5GS registration type %d is not initial registration", u.RegType&7)
	}
	ue.RegReq = plain
	// identity
	s, err := nas.DecodeSUCI(u.Identity)
	c.cur.Info["identity"] = hex.EncodeToString(u.Identity)
	if err != nil {
		c.viol("suci.decode", "%v", err)
	} else {
		want, ok := c.subscriber(ord)
		if !ok {
			panic("scenario population exhausts the MSIN digits")
		}
		if hm, hn := c.homePLMN(want); s.MCC != hm || s.MNC != hn {
			c.viol("suci.plmn", "SUCI home network %s/%s, the subscriber's is %s/%s", s.MCC, s.MNC, hm, hn)
		}
		if s.Scheme != 0 || s.KeyID != 0 {
			c.viol("suci.scheme", "protection scheme %d key %d, expected null scheme", s.Scheme, s.KeyID)
		}
		ue.SUPI = s.MCC + s.MNC + s.MSIN
		c.cur.Info["supi"] = ue.SUPI
		c.cur.Info["ran_ue_ngap_id"] = ranID
		if prev := c.bySUPI[ue.SUPI]; prev != nil && prev.State != StGone {
			c.viol("ident.supi-reused", "UE #%d registers with SUPI %s already used by UE #%d", ord, ue.SUPI, prev.Ordinal)
		} else {
			c.bySUPI[ue.SUPI] = ue // first registration, or a new one after the earlier context was released
		}
		if ue.SUPI != want {
			if idx, in := c.subscriberIndex(ue.SUPI); !in {
				c.viol("suci.msin", "SUPI %s is not a provisioned subscriber (expected %s for UE #%d)", ue.SUPI, want, ord)
			} else if idx != ord {
				c.viol("ident.supi-index", "UE #%d registers as %s, which is initial IMSI + %d", ord, ue.SUPI, idx)
			}
		}
	}
	if ue.SUPI == "" {
		ue.SUPI, _ = c.subscriber(ord)
	}
	// security capability
	sc := u.Get(0x2E)
	if sc == nil {
		c.viol("nas.seccap", "UE security capability missing from initial registration")
		sc = []byte{0x20, 0x20}
	}
	ue.SecCap = sc
	ea, ia := sc[0], sc[1]
	c.cur.Info["seccap"] = hex.EncodeToString(sc)
	if popcount(ea) != 1 || popcount(ia) != 1 {
		c.viol("ident.seccap", "UE advertises 5G-EA %08b / 5G-IA %08b: not exactly one algorithm each", ea, ia)
	}
	ue.EncAlg = selectAlg(ea)
	ue.IntAlg = selectAlg(ia)
	if ia&0x80 != 0 && popcount(ia) == 1 {
		c.viol("nas.seccap", "UE offers only the null integrity algorithm")
	}
	// authentication vector
	rnd := mustHex(ue.P.RAND, 16, "rand")
	sqn := mustHex(ue.P.SQN, 6, "sqn")
	amf := mustHex(ue.P.AMFField, 2, "amf")
	k, opc := c.credsOf(ord)
	ue.AKA = crypto.Derive5GAKA(k, opc, rnd, sqn, amf, crypto.SNName(c.servMCC, c.servMNC), ue.SUPI, []byte{0, 0})
	msg := nas.AuthenticationRequest(byte(ue.P.NgKSI), []byte{0, 0}, rnd, ue.AKA.AUTN)
	ies := []ngap.IE{
		{ngap.IDAMFUENGAPID, ngap.Reject, ngap.EncAMFUENGAPID(ue.AmfID)},
		{ngap.IDRANUENGAPID, ngap.Reject, ngap.EncRANUENGAPID(ue.RanID)},
	}
	ies = append(ies, ngap.IE{ngap.IDNASPDU, ngap.Reject, ngap.EncOctetString(msg)})
	ies = append(ies, c.dlOptIEs(ue.P.AuthOptIEs)...)
	c.out("DownlinkNASTransport/AuthenticationRequest", ord, &ngap.PDU{Kind: ngap.Initiating, Proc: ngap.ProcDownlinkNASTransport, Crit: ngap.Ignore, IEs: ies})
}

// dlOptIEs returns optional DownlinkNASTransport IEs that follow NAS-PDU in the table.
func (c *Core) dlOptIEs(bits int) []ngap.IE {
	var ies []ngap.IE
	if bits&1 != 0 {
		ies = append(ies, ngap.IE{ngap.IDMobilityRestrictionList, ngap.Ignore, must(ngap.EncMobilityRestrictionList(c.PLMN))})
	}
	if bits&2 != 0 {
		ies = append(ies, ngap.IE{ngap.IDIndexToRFSP, ngap.Ignore, must(ngap.EncInt1to256(1+bits%200, true))})
	}
	if bits&4 != 0 {
		ies = append(ies, ngap.IE{ngap.IDUEAggregateMaximumBitRate, ngap.Ignore, must(ngap.EncAMBR(2000000000, 1000000000))})
	}
	if bits&8 != 0 {
		ies = append(ies, ngap.IE{ngap.IDAllowedNSSAI, ngap.Reject, must(ngap.EncAllowedNSSAI([]ngap.SNSSAI{c.cfgSNSSAI()}))})
	}
	return ies
}

func popcount(b byte) int {
	n := 0
	for ; b != 0; b &= b - 1 {
		n++
	}
	return n
}

// selectAlg picks the algorithm id of the highest set bit position (bit 8 = alg 0).
func selectAlg(bits byte) byte {
	// prefer non-null algorithms, as TS 33.501 5.11.1 priority lists normally do
	for alg := byte(1); alg < 8; alg++ {
		if bits&(0x80>>alg) != 0 {
			return alg
		}
	}
	return 0
}

// guamiPLMN is the PLMN of the AMF's GUAMI: the serving PLMN, unless the scenario's AMF is a shared
// one with a GUAMI of its own.
func (c *Core) guamiPLMN() ([]byte, string, string) {
	if g := c.S.AMF.GUAMIPLMN; len(g) >= 5 {
		return nas.EncodePLMN(g[:3], g[3:]), g[:3], g[3:]
	}
	return c.PLMN, c.servMCC, c.servMNC
}

// credsOf returns K and OPc of the ord-th subscriber: its own when the scenario lists credentials
// per subscriber, else the configured ones.
func (c *Core) credsOf(ord int) ([]byte, []byte) {
	if ord < len(c.S.SubCreds) && c.S.SubCreds[ord].K != "" {
		cr := c.S.SubCreds[ord]
		k, e1 := hex.DecodeString(cr.K)
		var opc []byte
		var e2 error
		if cr.OPC != "" {
			opc, e2 = hex.DecodeString(cr.OPC)
		} else {
			var op []byte
			op, e2 = hex.DecodeString(cr.OP)
			if e2 == nil && len(op) == 16 && len(k) == 16 {
				opc = crypto.OPc(k, op)
			}
		}
		if e1 != nil || e2 != nil || len(k) != 16 || len(opc) != 16 {
			fmt.Fprintln(os.Stderr, "vsim: invalid scenario: subscriber credentials are not 16 octets of hex")
			os.Exit(96)
		}
		return k, opc
	}
	return c.k, c.opc
}

// subscriber returns the SUPI digits the ord-th registering UE is provisioned with: initial IMSI +
// ord, or the explicit list of the scenario (procedure-level runs with roaming subscribers).
func (c *Core) subscriber(ord int) (string, bool) {
	if subs := c.S.Subscribers; len(subs) > 0 {
		if ord < len(subs) {
			return subs[ord], true
		}
		return "", false
	}
	return supiOf(c.S.Config.IMSI, ord)
}

// homePLMN is the MCC/MNC the SUCI of subscriber supi must name. With an explicit subscriber
// list a UE may be a roamer: its home network differs from the serving (configured) PLMN, and the
// emulator is told the MNC length by the configured MNC.
func (c *Core) homePLMN(supi string) (string, string) {
	cfg := c.S.Config
	if len(c.S.Subscribers) > 0 && len(supi) >= 3+len(cfg.MNC) {
		return supi[:3], supi[3 : 3+len(cfg.MNC)]
	}
	return cfg.MCC, cfg.MNC
}

// supiOf returns the SUPI digits of the idx-th subscriber derived from the initial IMSI.
func supiOf(imsi string, idx int) (string, bool) {
	d := []byte(imsi)
	carry := idx
	for i := len(d) - 1; i >= 0 && carry > 0; i-- {
		v := int(d[i]-'0') + carry
		d[i] = byte('0' + v%10)
		carry = v / 10
	}
	return string(d), carry == 0
}

func (c *Core) subscriberIndex(supi string) (int, bool) {
	if subs := c.S.Subscribers; len(subs) > 0 {
		for i, x := range subs {
			if x == supi {
				return i, true
			}
		}
		return 0, false
	}
	imsi := c.S.Config.IMSI
	if len(supi) != len(imsi) {
		return 0, false
	}
	pop := c.S.Population
	if pop < 1 {
		pop = 1
	}
	// difference as decimal numbers, bounded by the population
	a, b := []byte(supi), []byte(imsi)
	diff, mul := 0, 1
	for i := len(a) - 1; i >= 0; i-- {
		dd := int(a[i]) - int(b[i])
		if mul > 100000000 {
			if dd != 0 {
				return 0, false
			}
			continue
		}
		diff += dd * mul
		mul *= 10
	}
	if diff < 0 || diff >= pop {
		return 0, false
	}
	return diff, true
}

// ---------- NAS security on the network side ----------

const (
	dirUL = 0
	dirDL = 1
)

// protectDL builds a security protected downlink message with the UE's next DL COUNT.
func (c *Core) protectDL(ue *UE, sht byte, plain []byte) []byte {
	if sht == 3 || sht == 4 {
		ue.DLNext = 0
	}
	cnt := ue.DLNext
	inner := plain
	if sht == 2 || sht == 4 {
		var err error
		inner, err = crypto.Cipher(ue.EncAlg, ue.KNASenc, cnt, 1, dirDL, plain)
		if err != nil {
			panic(err)
		}
	}
	sqn := byte(cnt)
	mac, err := crypto.MAC(ue.IntAlg, ue.KNASint, cnt, 1, dirDL, append([]byte{sqn}, inner...))
	if err != nil {
		panic(err)
	}
	ue.DLNext = (cnt + 1) & 0xffffff
	return nas.Protect(sht, mac, sqn, inner)
}

// verifyUL checks envelope, COUNT and MAC of a protected uplink message and returns the plain bytes.
func (c *Core) verifyUL(ue *UE, env nas.Envelope, wantSHT byte) []byte {
	if env.SHT != wantSHT {
		c.viol("nas.sht", "security header type %d, expected %d", env.SHT, wantSHT)
	}
	if env.SHT == 3 || env.SHT == 4 {
		ue.ULNext = 0
		ue.ULUsed = map[uint32]bool{}
	}
	want := ue.ULNext
	if env.SQN != byte(want) {
		c.viol("nas.count", "sequence number %d, expected NAS COUNT %d (one above the previous)", env.SQN, want)
	}
	// COUNT estimate as TS 24.501 4.4.3.1: overflow from the local counter, SQN from the message
	est := want&0xffff00 | uint32(env.SQN)
	if env.SQN < byte(want) {
		est = (est + 0x100) & 0xffffff
	}
	macIn := append([]byte{env.SQN}, env.Inner...)
	mac, err := crypto.MAC(ue.IntAlg, ue.KNASint, est, 1, dirUL, macIn)
	if err != nil {
		c.viol("nas.alg", "%v", err)
		return nil
	}
	c.cur.Info["ul_count"] = est
	if !bytes.Equal(mac, env.MAC) {
		c.viol("nas.mac", "MAC %x does not verify under the network's K_NASint (%s, COUNT %d): expected %x", env.MAC, algName(ue.IntAlg, true), est, mac)
	}
	if ue.ULUsed[est] {
		c.viol("nas.count-reuse", "uplink NAS COUNT %d used twice under the same K_AMF", est)
	}
	ue.ULUsed[est] = true
	ue.ULNext = (est + 1) & 0xffffff
	plain := env.Inner
	if env.SHT == 2 || env.SHT == 4 {
		plain, err = crypto.Cipher(ue.EncAlg, ue.KNASenc, est, 1, dirUL, env.Inner)
		if err != nil {
			c.viol("nas.alg", "%v", err)
			return nil
		}
	}
	return plain
}

func algName(a byte, integ bool) string {
	if integ {
		return "128-NIA" + strconv.Itoa(int(a))
	}
	return "128-NEA" + strconv.Itoa(int(a))
}

// ---------- UplinkNASTransport ----------

var uplinkNASTransportIEs = []ngap.IESpec{
	{ngap.IDAMFUENGAPID, ngap.Reject, true}, {ngap.IDRANUENGAPID, ngap.Reject, true},
	{ngap.IDNASPDU, ngap.Reject, true}, {ngap.IDUserLocationInformation, ngap.Ignore, true},
}

// idPair reads the two UE NGAP ids and resolves the UE context.
func (c *Core) idPair(p *ngap.PDU) *UE {
	var amfID, ranID int64 = -1, -1
	if ie := p.Find(ngap.IDAMFUENGAPID); ie != nil {
		v, err := ngap.DecAMFUENGAPID(ie.Val)
		if err != nil {
			c.viol("ngap.ie-value", "%v", err)
		} else {
			amfID = v
		}
	}
	if ie := p.Find(ngap.IDRANUENGAPID); ie != nil {
		v, err := ngap.DecRANUENGAPID(ie.Val)
		if err != nil {
			c.viol("ngap.ie-value", "%v", err)
		} else {
			ranID = v
		}
	}
	c.cur.Info["amf_ue_ngap_id"] = amfID
	c.cur.Info["ran_ue_ngap_id"] = ranID
	ue := c.byAmf[amfID]
	if ue == nil {
		if r := c.byRan[ranID]; r != nil {
			c.viol("id.amf", "AMF-UE-NGAP-ID %d was never assigned; RAN-UE-NGAP-ID %d belongs to UE #%d whose AMF-UE-NGAP-ID is %d", amfID, ranID, r.Ordinal, r.AmfID)
			ue = r
		} else {
			c.viol("id.amf", "AMF-UE-NGAP-ID %d / RAN-UE-NGAP-ID %d identify no UE context", amfID, ranID)
			return nil
		}
	} else if ue.RanID != ranID {
		c.viol("id.ran", "RAN-UE-NGAP-ID %d does not match UE #%d (RAN-UE-NGAP-ID %d, AMF-UE-NGAP-ID %d)", ranID, ue.Ordinal, ue.RanID, ue.AmfID)
	}
	c.cur.UE = ue.Ordinal
	if ue.State == StGone {
		c.viol("prereq.context", "message for UE #%d whose context has been released", ue.Ordinal)
	}
	return ue
}

func (c *Core) uplinkNAS(p *ngap.PDU) {
	c.cur.Label = "UplinkNASTransport"
	c.needSetup()
	c.checkCrit(p, ngap.Ignore)
	c.checkTable(p, uplinkNASTransportIEs)
	c.checkULI(p)
	ue := c.idPair(p)
	ie := p.Find(ngap.IDNASPDU)
	if ue == nil || ie == nil {
		return
	}
	pdu, err := ngap.DecOctetString(ie.Val, "NAS-PDU")
	if err != nil {
		c.viol("ngap.ie-value", "%v", err)
		return
	}
	env, err := nas.SplitEnvelope(pdu)
	if err != nil {
		c.viol("nas.decode", "%v", err)
		return
	}
	switch ue.State {
	case StAuthPending:
		c.authResponse(ue, env)
	case StSMCPending:
		c.smcComplete(ue, env)
	default:
		c.protectedUplink(ue, env)
	}
}

func (c *Core) authResponse(ue *UE, env nas.Envelope) {
	c.cur.Label = "UplinkNASTransport/AuthenticationResponse"
	if env.SHT != 0 {
		c.viol("nas.sht", "AUTHENTICATION RESPONSE sent with security header type %d before any context exists", env.SHT)
		return
	}
	u, err := nas.ParseUplink(env.Inner)
	if err != nil {
		c.viol("nas.decode", "%v", err)
		return
	}
	if u.Type != nas.MTAuthenticationResponse {
		c.viol("nas.unexpected", "message type 0x%02x while waiting for AUTHENTICATION RESPONSE", u.Type)
		return
	}
	res := u.Get(0x2D)
	c.cur.Info["res_star"] = hex.EncodeToString(res)
	if !bytes.Equal(res, ue.AKA.XRESStar) {
		c.viol("aka.res", "RES* %x differs from XRES* %x", res, ue.AKA.XRESStar)
	}
	// take the new context into use
	ue.KNASenc = crypto.AlgKey(ue.AKA.KAMF, 1, ue.EncAlg)
	ue.KNASint = crypto.AlgKey(ue.AKA.KAMF, 2, ue.IntAlg)
	ue.State = StSMCPending
	var o nas.SMCOptions
	o.IMEISVRequest = ue.P.SMCOpt&1 != 0
	if ue.P.SMCOpt&2 != 0 {
		v := byte(ue.P.SMCOpt>>4) & 3
		o.Additional = &v
	}
	if ue.P.SMCOpt&4 != 0 {
		o.ABBA = []byte{0, 0}
	}
	smc := nas.SecurityModeCommand(ue.EncAlg, ue.IntAlg, byte(ue.P.NgKSI), ue.SecCap, o)
	msg := c.protectDL(ue, 3, smc)
	smcPDU := c.dlNAS(ue, msg)
	smcPDU.IEs = append(smcPDU.IEs, c.dlOptIEs(ue.P.SMCNgapOpt)...)
	c.out("DownlinkNASTransport/SecurityModeCommand", ue.Ordinal, smcPDU)
}

func (c *Core) smcComplete(ue *UE, env nas.Envelope) {
	c.cur.Label = "UplinkNASTransport/SecurityModeComplete"
	if env.SHT == 0 {
		c.viol("nas.sht", "plain message while waiting for SECURITY MODE COMPLETE")
		return
	}
	plain := c.verifyUL(ue, env, 4)
	if plain == nil {
		return
	}
	if v, ok := c.cur.Info["ul_count"]; ok && v.(uint32) != 0 {
		c.viol("nas.count", "SECURITY MODE COMPLETE uses NAS COUNT %d, a new context starts at 0", v)
	}
	u, err := nas.ParseUplink(plain)
	if err != nil {
		c.viol("nas.decode", "%v", err)
	} else if u.Type != nas.MTSecurityModeComplete {
		c.viol("nas.unexpected", "message type 0x%02x while waiting for SECURITY MODE COMPLETE", u.Type)
	} else {
		cont := u.Get(0x71)
		if cont == nil {
			c.viol("nas.container", "SECURITY MODE COMPLETE lacks the NAS message container with the full REGISTRATION REQUEST")
		} else if inner, err := nas.ParseUplink(cont); err != nil {
			c.viol("nas.container", "NAS message container: %v", err)
		} else if inner.Type != nas.MTRegistrationRequest {
			c.viol("nas.container", "NAS message container holds message type 0x%02x", inner.Type)
		} else {
			first, _ := nas.ParseUplink(ue.RegReq)
			if first != nil && !bytes.Equal(first.Identity, inner.Identity) {
				c.viol("nas.container", "REGISTRATION REQUEST in the container carries identity %x, the initial one %x", inner.Identity, first.Identity)
			}
			if first != nil && !bytes.Equal(first.Get(0x2E), inner.Get(0x2E)) {
				c.viol("nas.container", "UE security capability changed between the initial and the contained REGISTRATION REQUEST")
			}
		}
		if ue.P.SMCOpt&1 != 0 && !u.Has(0x77) {
			c.viol("nas.imeisv", "IMEISV was requested but SECURITY MODE COMPLETE has none")
		}
	}
	ue.State = StICSPending
	a := c.S.AMF
	var ro nas.RegAcceptOptions
	tm := mustHex(ue.P.TMSI, 4, "tmsi")
	_, gm, gn := c.guamiPLMN()
	g := &nas.GUTI{MCC: gm, MNC: gn, Region: byte(a.Region), SetID: uint16(a.SetID), Pointer: byte(a.Pointer)}
	copy(g.TMSI[:], tm)
	if ue.P.RegAccOpt&1 == 0 {
		ro.GUTI = g
	}
	if ue.P.RegAccOpt&2 != 0 {
		ro.TAIList = append(append([]byte{0x00}, c.PLMN...), 0, 0, 1)
	}
	if ue.P.RegAccOpt&4 != 0 {
		sn := c.cfgSNSSAI()
		v := []byte{1, sn.SST}
		if sn.SD != nil {
			v = append([]byte{4, sn.SST}, sn.SD...)
		}
		ro.AllowedNSSAI = v
	}
	if ue.P.RegAccOpt&8 != 0 {
		ro.NetFeature = []byte{0x01, 0x00}
	}
	if ue.P.RegAccOpt&16 != 0 {
		t := byte(0x5e)
		ro.T3512 = &t
	}
	acc := c.protectDL(ue, 2, nas.RegistrationAccept(ro))
	kgnb := crypto.KDF(ue.AKA.KAMF, 0x6E, []byte{0, 0, 0, 0}, []byte{0x01})
	ies := []ngap.IE{
		{ngap.IDAMFUENGAPID, ngap.Reject, ngap.EncAMFUENGAPID(ue.AmfID)},
		{ngap.IDRANUENGAPID, ngap.Reject, ngap.EncRANUENGAPID(ue.RanID)},
	}
	if ue.P.ICSOpt&1 != 0 {
		ies = append(ies, ngap.IE{ngap.IDOldAMF, ngap.Reject, must(ngap.EncPrintable("old-" + a.Name))})
	}
	gp, _, _ := c.guamiPLMN()
	guami := ngap.GUAMI{PLMN: gp, Region: byte(a.Region), SetID: uint16(a.SetID), Pointer: byte(a.Pointer)}
	ies = append(ies, ngap.IE{ngap.IDGUAMI, ngap.Reject, must(ngap.EncGUAMI(guami))})
	ies = append(ies, ngap.IE{ngap.IDAllowedNSSAI, ngap.Reject, must(ngap.EncAllowedNSSAI([]ngap.SNSSAI{c.cfgSNSSAI()}))})
	ea, ia := ue.SecCap[0], ue.SecCap[1]
	ies = append(ies, ngap.IE{ngap.IDUESecurityCapabilities, ngap.Reject, must(ngap.EncUESecurityCapabilities(ngap.UESecCap{
		NRenc: uint16(ea&0x7f) << 9, NRint: uint16(ia&0x7f) << 9}))})
	ies = append(ies, ngap.IE{ngap.IDSecurityKey, ngap.Reject, must(ngap.EncSecurityKey(kgnb))})
	if ue.P.ICSOpt&2 != 0 {
		ies = append(ies, ngap.IE{ngap.IDMobilityRestrictionList, ngap.Ignore, must(ngap.EncMobilityRestrictionList(c.PLMN))})
	}
	if ue.P.ICSOpt&4 != 0 {
		rc := []byte{0x01, 0x02, 0x03, 0x04}
		for len(rc) < ue.P.RadioCapLen { // a UE radio capability container of realistic size (hundreds of octets)
			rc = append(rc, byte(len(rc)*7))
		}
		ies = append(ies, ngap.IE{ngap.IDUERadioCapability, ngap.Ignore, ngap.EncOctetString(rc)})
	}
	if ue.P.ICSOpt&8 != 0 {
		ies = append(ies, ngap.IE{ngap.IDIndexToRFSP, ngap.Ignore, must(ngap.EncInt1to256(7, true))})
	}
	if ue.P.ICSOpt&16 != 0 {
		ies = append(ies, ngap.IE{ngap.IDMaskedIMEISV, ngap.Ignore, must(ngap.EncMaskedIMEISV([]byte{0x11, 0x22, 0x33, 0x44, 0xff, 0xff, 0x55, 0x66}))})
	}
	ies = append(ies, ngap.IE{ngap.IDNASPDU, ngap.Ignore, ngap.EncOctetString(acc)})
	c.out("InitialContextSetupRequest/RegistrationAccept", ue.Ordinal, &ngap.PDU{Kind: ngap.Initiating, Proc: ngap.ProcInitialContextSetup, Crit: ngap.Reject, IEs: ies})
}

var icsResponseIEs = []ngap.IESpec{
	{ngap.IDAMFUENGAPID, ngap.Ignore, true}, {ngap.IDRANUENGAPID, ngap.Ignore, true},
	{ngap.IDPDUSessionResourceSetupListCxtRes, ngap.Ignore, false}, {ngap.IDPDUSessionResourceFailedToSetupListCxtRes, ngap.Ignore, false},
	{ngap.IDCriticalityDiagnostics, ngap.Ignore, false},
}

func (c *Core) icsResponse(p *ngap.PDU) {
	c.cur.Label = "InitialContextSetupResponse"
	c.needSetup()
	c.checkCrit(p, ngap.Reject)
	c.checkTable(p, icsResponseIEs)
	ue := c.idPair(p)
	if ue == nil {
		return
	}
	list := p.Find(ngap.IDPDUSessionResourceSetupListCxtRes)
	switch {
	case ue.State == StICSPending && !ue.gotICSResp:
		c.cur.Label = "InitialContextSetupResponse/registration"
		ue.gotICSResp = true
		if list != nil {
			c.viol("ngap.unsolicited-session", "InitialContextSetupResponse lists PDU sessions although the request set up none")
		}
		c.maybeRegistered(ue)
	case ue.SvcPending:
		c.cur.Label = "InitialContextSetupResponse/service"
		ue.SvcPending = false
		ue.NSvc++
		if list == nil {
			if ue.SvcWithPDU {
				c.viol("psi.missing", "InitialContextSetupResponse lacks the setup list for the re-activated PDU session %d", ue.PSI)
			}
		} else {
			c.checkSetupList(ue, list.Val, "PDUSessionResourceSetupListCxtRes", ue.SvcWithPDU)
		}
	default:
		c.viol("ngap.unsolicited-outcome", "InitialContextSetupResponse for UE #%d without an outstanding InitialContextSetupRequest", ue.Ordinal)
	}
}

func (c *Core) maybeRegistered(ue *UE) {
	if ue.gotICSResp && ue.gotRegCmpl && ue.State == StICSPending {
		ue.State = StRegistered
	}
}

// checkSetupList checks a setup response list: one item, the UE's session id, the configured GTP address.
func (c *Core) checkSetupList(ue *UE, val []byte, what string, solicited bool) {
	items, err := ngap.DecSessionItemList(val, what)
	if err != nil {
		c.viol("ngap.ie-value", "%v", err)
		return
	}
	if !solicited {
		c.viol("ngap.unsolicited-session", "%s reports PDU sessions the network did not ask to set up", what)
	}
	if len(items) != 1 {
		c.viol("psi.mismatch", "%s has %d items, one session was requested", what, len(items))
	}
	for _, it := range items {
		c.cur.Info["psi_ngap"] = it.ID
		if it.ID != ue.PSI {
			c.viol("psi.mismatch", "%s reports PDU session id %d, the UE's session is %d", what, it.ID, ue.PSI)
		}
		t, err := ngap.DecSetupResponseTransfer(it.Transfer)
		if err != nil {
			c.viol("ngap.ie-value", "%v", err)
			continue
		}
		want := net.ParseIP(c.S.Config.GnbGtpIP).To4()
		c.cur.Info["gtp_addr"] = hex.EncodeToString(t.Tunnel.Addr)
		if t.Tunnel.AddrLen != 32 || !bytes.Equal(t.Tunnel.Addr, want) {
			c.viol("cfg.gnb_gtp_ip", "DL tunnel address %x/%d bits, configured gnb_gtp_ip %s", t.Tunnel.Addr, t.Tunnel.AddrLen, c.S.Config.GnbGtpIP)
		}
		if len(t.Flows) == 0 {
			c.viol("ngap.ie-value", "no associated QoS flow")
		}
	}
}

// protectedUplink handles everything a registered UE sends in an UplinkNASTransport.
func (c *Core) protectedUplink(ue *UE, env nas.Envelope) {
	if env.SHT == 0 {
		c.viol("nas.sht", "plain NAS message from UE #%d after security was activated", ue.Ordinal)
		return
	}
	plain := c.verifyUL(ue, env, 2)
	if plain == nil {
		return
	}
	u, err := nas.ParseUplink(plain)
	if err != nil {
		c.viol("nas.decode", "%v", err)
		return
	}
	switch u.Type {
	case nas.MTRegistrationComplete:
		c.cur.Label = "UplinkNASTransport/RegistrationComplete"
		if ue.State != StICSPending || ue.gotRegCmpl {
			c.viol("nas.unexpected", "REGISTRATION COMPLETE in state %s", ue.State)
			return
		}
		ue.gotRegCmpl = true
		c.maybeRegistered(ue)
		a := c.S.AMF
		var ind *byte
		var g *nas.GUTI
		if ue.P.CUCOpt&1 != 0 {
			v := byte(1)
			ind = &v
		}
		if ue.P.CUCOpt&2 != 0 {
			_, gm, gn := c.guamiPLMN()
			g = &nas.GUTI{MCC: gm, MNC: gn, Region: byte(a.Region), SetID: uint16(a.SetID), Pointer: byte(a.Pointer)}
			copy(g.TMSI[:], mustHex(ue.P.TMSI, 4, "tmsi"))
		}
		msg := c.protectDL(ue, 2, nas.ConfigurationUpdateCommand(ind, g))
		cucPDU := c.dlNAS(ue, msg)
		cucPDU.IEs = append(cucPDU.IEs, c.dlOptIEs(ue.P.CUCNgapOpt)...)
		c.out("DownlinkNASTransport/ConfigurationUpdateCommand", ue.Ordinal, cucPDU)
	case nas.MTULNASTransport:
		c.ulNASTransport(ue, u)
	case nas.MTDeregistrationRequestUE:
		c.deregistration(ue, u)
	default:
		c.viol("nas.unexpected", "5GMM message type 0x%02x in state %s", u.Type, ue.State)
	}
}

func (c *Core) dlNAS(ue *UE, msg []byte) *ngap.PDU {
	return &ngap.PDU{Kind: ngap.Initiating, Proc: ngap.ProcDownlinkNASTransport, Crit: ngap.Ignore, IEs: []ngap.IE{
		{ngap.IDAMFUENGAPID, ngap.Reject, ngap.EncAMFUENGAPID(ue.AmfID)},
		{ngap.IDRANUENGAPID, ngap.Reject, ngap.EncRANUENGAPID(ue.RanID)},
		{ngap.IDNASPDU, ngap.Reject, ngap.EncOctetString(msg)},
	}}
}

func (c *Core) requireRegistered(ue *UE, what string) bool {
	if ue.State != StRegistered {
		c.viol("prereq.registration", "%s for UE #%d in state %s (registration not completed)", what, ue.Ordinal, ue.State)
		return false
	}
	return true
}

func (c *Core) ulNASTransport(ue *UE, u *nas.Uplink) {
	c.cur.Label = "UplinkNASTransport/ULNASTransport"
	if u.ContainerType != 1 {
		c.viol("nas.container-type", "payload container type %d is not N1 SM information", u.ContainerType)
		return
	}
	sm, err := nas.ParseSM(u.Container)
	if err != nil {
		c.viol("nas.decode", "%v", err)
		return
	}
	hdr := u.Get(0x12)
	if hdr == nil {
		c.viol("psi.missing", "UL NAS TRANSPORT carries no PDU session ID IE")
	} else if hdr[0] != sm.PSI {
		c.viol("psi.mismatch", "UL NAS TRANSPORT PDU session ID %d differs from the 5GSM message's %d", hdr[0], sm.PSI)
	}
	c.cur.Info["psi_nas"] = int(sm.PSI)
	if sm.PSI < 1 || sm.PSI > 15 {
		c.viol("psi.reserved", "PDU session identity %d is a reserved value (TS 24.007 11.2.3.1b)", sm.PSI)
	}
	cfg := c.S.Config
	switch sm.Type {
	case nas.MTPDUSessionEstablishmentRequest:
		c.cur.Label = "UplinkNASTransport/PDUSessionEstablishmentRequest"
		c.requireRegistered(ue, "PDU session establishment")
		if sm.PTI == 0 {
			c.viol("sm.pti", "PDU SESSION ESTABLISHMENT REQUEST with PTI 0 (unassigned), TS 24.501 7.3.1")
		}
		if ue.SessActive {
			c.viol("prereq.session", "second PDU session establishment for UE #%d while session %d is active", ue.Ordinal, ue.PSI)
		}
		if rt := u.Get(0x80); rt == nil || rt[0]&7 != 1 {
			c.viol("nas.request-type", "request type %v is not initial request", rt)
		}
		// S-NSSAI and DNN as configured
		want := []byte{byte(cfg.SST)}
		if sd, err := hex.DecodeString(cfg.SD); err == nil && len(sd) == 3 {
			want = append(want, sd...)
		}
		got := u.Get(0x22)
		c.cur.Info["snssai"] = hex.EncodeToString(got)
		if !bytes.Equal(got, want) {
			c.viol("cfg.snssai", "S-NSSAI %x in UL NAS TRANSPORT, configured sst=%d sd=%s", got, cfg.SST, cfg.SD)
		}
		if dnn := u.Get(0x25); dnn == nil {
			c.viol("nas.dnn", "DNN missing")
		}
		ue.PSI = int(sm.PSI)
		ue.EstPTI = sm.PTI
		if ue.P.EstReject != 0 {
			// the SMF refuses the session (TS 24.501 6.4.1.4): 2E | PSI | PTI | C3 | 5GSM cause
			rej := []byte{0x2E, sm.PSI, sm.PTI, 0xC3, byte(ue.P.EstReject)}
			psi := sm.PSI
			msg := c.protectDL(ue, 2, nas.DLNASTransport(rej, &psi, nil))
			ue.PSI = -1
			c.out("DownlinkNASTransport/PDUSessionEstablishmentReject", ue.Ordinal, c.dlNAS(ue, msg))
			return
		}
		c.sessionSetup(ue)
	case nas.MTPDUSessionReleaseRequest:
		c.cur.Label = "UplinkNASTransport/PDUSessionReleaseRequest"
		c.requireRegistered(ue, "PDU session release")
		if !ue.SessActive {
			c.viol("prereq.session", "PDU session release for UE #%d which has no active session", ue.Ordinal)
		} else if int(sm.PSI) != ue.PSI {
			c.viol("psi.mismatch", "release request names session %d, the UE's session is %d", sm.PSI, ue.PSI)
		}
		if sm.PTI == 0 {
			c.viol("sm.pti", "PDU SESSION RELEASE REQUEST with PTI 0 (unassigned), TS 24.501 7.3.1")
		}
		ue.RelPending = true
		ue.RelCmdSent = true
		ue.GotRelResp = false
		cmd := nas.ReleaseCommand(sm.PSI, sm.PTI, 0x24)
		psi := sm.PSI
		msg := c.protectDL(ue, 2, nas.DLNASTransport(cmd, &psi, nil))
		tr := must(ngap.EncReleaseCommandTransfer(ngap.Cause{Group: 2, Value: 0}))
		ies := []ngap.IE{
			{ngap.IDAMFUENGAPID, ngap.Reject, ngap.EncAMFUENGAPID(ue.AmfID)},
			{ngap.IDRANUENGAPID, ngap.Reject, ngap.EncRANUENGAPID(ue.RanID)},
			{ngap.IDNASPDU, ngap.Ignore, ngap.EncOctetString(msg)},
			{ngap.IDPDUSessionResourceToReleaseListRelCmd, ngap.Reject, must(ngap.EncToReleaseList([]ngap.SessionItem{{ID: int(sm.PSI), Transfer: tr}}))},
		}
		c.out("PDUSessionResourceReleaseCommand", ue.Ordinal, &ngap.PDU{Kind: ngap.Initiating, Proc: ngap.ProcPDUSessionResourceRelease, Crit: ngap.Reject, IEs: ies})
	case nas.MTPDUSessionReleaseComplete:
		c.cur.Label = "UplinkNASTransport/PDUSessionReleaseComplete"
		if !ue.RelPending {
			c.viol("prereq.session", "PDU SESSION RELEASE COMPLETE for UE #%d without a release in progress", ue.Ordinal)
			return
		}
		if int(sm.PSI) != ue.PSI {
			c.viol("psi.mismatch", "release complete names session %d, the UE's session is %d", sm.PSI, ue.PSI)
		}
		ue.RelPending = false
		ue.SessActive = false
		ue.NRel++
	}
}

// sessionSetup sends the PDUSessionResourceSetupRequest for the UE's session.
func (c *Core) sessionSetup(ue *UE) {
	item := c.setupItem(ue, true)
	ies := []ngap.IE{
		{ngap.IDAMFUENGAPID, ngap.Reject, ngap.EncAMFUENGAPID(ue.AmfID)},
		{ngap.IDRANUENGAPID, ngap.Reject, ngap.EncRANUENGAPID(ue.RanID)},
	}
	if ue.P.SetupOpt&1 != 0 {
		ies = append(ies, ngap.IE{ngap.IDRANPagingPriority, ngap.Ignore, must(ngap.EncInt1to256(5, false))})
	}
	if ue.P.SetupOpt&4 != 0 {
		// the optional top-level NAS-PDU of the message (TS 38.413 9.2.1.1): a 5GMM message for the UE
		// that rides along; the accept stays in the list item
		ind := byte(0x01)
		ies = append(ies, ngap.IE{ngap.IDNASPDU, ngap.Reject, ngap.EncOctetString(c.protectDL(ue, 2, nas.ConfigurationUpdateCommand(&ind, nil)))})
	}
	ies = append(ies, ngap.IE{ngap.IDPDUSessionResourceSetupListSUReq, ngap.Reject, must(ngap.EncSetupItemList([]ngap.SetupItem{item}))})
	if ue.P.SetupOpt&2 != 0 {
		ies = append(ies, ngap.IE{ngap.IDUEAggregateMaximumBitRate, ngap.Ignore, must(ngap.EncAMBR(ue.P.AMBRDL, ue.P.AMBRUL))})
	}
	ue.SessEverEst = true
	c.out("PDUSessionResourceSetupRequest", ue.Ordinal, &ngap.PDU{Kind: ngap.Initiating, Proc: ngap.ProcPDUSessionResourceSetup, Crit: ngap.Reject, IEs: ies})
}

// BuildAccept builds the PDU SESSION ESTABLISHMENT ACCEPT the SMF sends for these parameters.
func BuildAccept(p scn.UEParams, psi, pti byte, snssai []byte) nas.EstAccept {
	r := kernel.New(uint64(p.QoSRuleLen)*7919 + uint64(p.AccOpt)).Sub("acc")
	fill := func(n int) []byte {
		b := r.Bytes(n)
		switch p.Fill {
		case 1:
			dict := []byte{0x29, 0x59, 0x7B, 0x79, 0x22, 0x25, 0x56, 0x7E, 0x2E, 0x00, 0x01, 0x04, 0x05, 0x8B, 0xFF, 0x68, 0xC2}
			for i := range b {
				b[i] = dict[int(b[i])%len(dict)]
			}
		case 2:
			for i := range b {
				b[i] = 0x29
			}
		case 3:
			decoy := []byte{0x29, 0x05, 0x01, 0x0A, 0x2D, 0x00, 0x63}
			for i := range b {
				b[i] = decoy[i%len(decoy)]
			}
		}
		return b
	}
	lens := func(i, def int) int {
		if i < len(p.AccLens) && p.AccLens[i] >= 0 {
			return p.AccLens[i]
		}
		return def
	}
	a := nas.EstAccept{PSI: psi, PTI: pti, SSCMode: 1, SessionType: 1}
	a.QoSRules = fill(p.QoSRuleLen)
	a.AMBR = []byte{0x06, 0x00, 0x64, 0x06, 0x00, 0x32}
	if b, err := hex.DecodeString(p.SessAMBR); err == nil && len(b) == 6 {
		a.AMBR = b
	}
	ip := net.ParseIP(p.UEIP).To4()
	o := p.AccOpt
	if o&(1<<0) != 0 {
		v := byte(0x32)
		if p.CauseVal != 0 {
			v = byte(p.CauseVal)
		}
		a.Cause = &v
	}
	a.PDUAddress = append([]byte{0x01}, ip...)
	if o&(1<<1) != 0 {
		v := byte(0x21)
		a.RQTimer = &v
	}
	if o&(1<<2) != 0 {
		a.SNSSAI = snssai
	}
	if o&(1<<3) != 0 {
		v := byte(1)
		a.AlwaysOn = &v
	}
	if o&(1<<4) != 0 {
		a.MappedEPS = fill(lens(0, 9))
	}
	if o&(1<<5) != 0 {
		a.EAP = fill(lens(1, 6))
	}
	if o&(1<<6) != 0 {
		a.QoSFlowDescs = fill(lens(2, 6))
	}
	if o&(1<<7) != 0 {
		a.EPCO = fill(lens(3, 11))
	}
	if o&(1<<8) != 0 {
		a.DNN = append([]byte{8}, []byte("internet")...)
	}
	if o&(1<<9) != 0 {
		a.NetFeature = fill(1)
	}
	if o&(1<<10) != 0 {
		a.RateControl = fill(2)
	}
	if o&(1<<11) != 0 {
		a.ATSSS = fill(lens(4, 5))
	}
	if o&(1<<12) != 0 {
		a.CPOnly = true
	}
	if o&(1<<13) != 0 {
		a.IPHdrComp = fill(lens(5, 3))
	}
	if o&(1<<14) != 0 {
		a.EthHdrComp = fill(1)
	}
	return a
}

// BuildTransfer builds the PDUSessionResourceSetupRequestTransfer for these parameters.
func BuildTransfer(p scn.UEParams) []byte {
	upf := net.ParseIP(p.UPFIP).To4()
	teid, _ := hex.DecodeString(p.TEID)
	var ies []ngap.IE
	if p.TransOpt&1 == 0 {
		ies = append(ies, ngap.IE{ngap.IDPDUSessionAggregateMaximumBitRate, ngap.Reject, must(ngap.EncAMBR(p.AMBRDL, p.AMBRUL))})
	}
	ies = append(ies, ngap.IE{ngap.IDULNGUUPTNLInformation, ngap.Reject, must(ngap.EncUPTNL(ngap.GTPTunnel{Addr: upf, AddrLen: 32, TEID: teid}))})
	if p.TransOpt&2 != 0 {
		ies = append(ies, ngap.IE{ngap.IDDataForwardingNotPossible, ngap.Reject, must(ngap.EncEnum(0, 1, true))})
	}
	ies = append(ies, ngap.IE{ngap.IDPDUSessionType, ngap.Reject, must(ngap.EncEnum(0, 5, true))})
	if p.TransOpt&4 != 0 {
		ies = append(ies, ngap.IE{ngap.IDSecurityIndication, ngap.Reject, must(ngap.EncSecurityIndication(ngap.SecurityIndication{Integrity: 2, Confidentiality: 2}))})
	}
	if p.TransOpt&8 != 0 {
		ies = append(ies, ngap.IE{ngap.IDNetworkInstance, ngap.Reject, must(ngap.EncInt1to256(3, true))})
	}
	fq := p.FiveQI
	if fq == 0 {
		fq = 9
	}
	flows := []ngap.QosFlow{{QFI: 1, FiveQI: fq, ARPPriority: 8}}
	for i := 1; i < p.NFlows && i < 64; i++ {
		flows = append(flows, ngap.QosFlow{QFI: (1 + i) % 64, FiveQI: 1 + (fq+i)%254, ARPPriority: 1 + i%15, PriorityLevel: i % 3 * 40})
	}
	ies = append(ies, ngap.IE{ngap.IDQosFlowSetupRequestList, ngap.Reject, must(ngap.EncQosFlowSetupRequestList(flows))})
	return must(ngap.EncodeContainer(ies))
}

func (c *Core) setupItem(ue *UE, withNAS bool) ngap.SetupItem {
	sn := c.cfgSNSSAI()
	snv := []byte{sn.SST}
	if sn.SD != nil {
		snv = append(snv, sn.SD...)
	}
	item := ngap.SetupItem{ID: ue.PSI, SNSSAI: sn, Transfer: BuildTransfer(ue.P)}
	if withNAS {
		acc := BuildAccept(ue.P, byte(ue.PSI), ue.EstPTI, snv).Encode()
		psi := byte(ue.PSI)
		item.NAS = c.protectDL(ue, 2, nas.DLNASTransport(acc, &psi, nil))
	}
	// message-corruption fault (C12 termination clause): damage the bytes the extractor walks
	if m, ok := c.S.Rig["corrupt"].(map[string]interface{}); ok {
		target, _ := m["target"].(string)
		if target == "nas" && item.NAS != nil {
			item.NAS = Corrupt(item.NAS, m)
		} else if target == "transfer" {
			item.Transfer = Corrupt(item.Transfer, m)
		}
	}
	return item
}

// Corrupt applies one corruption fault {kind, off, val} to a copy of b.
func Corrupt(b []byte, m map[string]interface{}) []byte {
	out := append([]byte{}, b...)
	kind, _ := m["kind"].(string)
	offF, _ := m["off"].(float64)
	valF, _ := m["val"].(float64)
	off, val := int(offF), byte(valF)
	if len(out) == 0 {
		return out
	}
	off %= len(out)
	switch kind {
	case "truncate":
		return out[:off]
	case "flip":
		out[off] ^= 1 << (val % 8)
	case "set":
		out[off] = val
	case "splice":
		// repeat the tail from off once more
		out = append(out, out[off:]...)
	}
	return out
}

var setupResponseIEs = []ngap.IESpec{
	{ngap.IDAMFUENGAPID, ngap.Ignore, true}, {ngap.IDRANUENGAPID, ngap.Ignore, true},
	{ngap.IDPDUSessionResourceSetupListSURes, ngap.Ignore, false}, {ngap.IDPDUSessionResourceFailedToSetupListSURes, ngap.Ignore, false},
	{ngap.IDCriticalityDiagnostics, ngap.Ignore, false},
}

func (c *Core) setupResponse(p *ngap.PDU) {
	c.cur.Label = "PDUSessionResourceSetupResponse"
	c.needSetup()
	c.checkCrit(p, ngap.Reject)
	c.checkTable(p, setupResponseIEs)
	ue := c.idPair(p)
	if ue == nil {
		return
	}
	if !ue.SessEverEst || ue.SessActive {
		c.viol("ngap.unsolicited-outcome", "PDUSessionResourceSetupResponse for UE #%d without an outstanding setup request", ue.Ordinal)
	}
	list := p.Find(ngap.IDPDUSessionResourceSetupListSURes)
	if list == nil {
		c.viol("psi.missing", "PDUSessionResourceSetupResponse lacks the setup list")
		return
	}
	c.checkSetupList(ue, list.Val, "PDUSessionResourceSetupListSURes", true)
	ue.SessActive = true
	ue.NEst++
}

var releaseResponseIEs = []ngap.IESpec{
	{ngap.IDAMFUENGAPID, ngap.Ignore, true}, {ngap.IDRANUENGAPID, ngap.Ignore, true},
	{ngap.IDPDUSessionResourceReleasedListRelRes, ngap.Ignore, true}, {ngap.IDUserLocationInformation, ngap.Ignore, false},
	{ngap.IDCriticalityDiagnostics, ngap.Ignore, false},
}

func (c *Core) releaseResponse(p *ngap.PDU) {
	c.cur.Label = "PDUSessionResourceReleaseResponse"
	c.needSetup()
	c.checkCrit(p, ngap.Reject)
	c.checkTable(p, releaseResponseIEs)
	c.checkULI(p)
	ue := c.idPair(p)
	if ue == nil {
		return
	}
	if !ue.RelPending || !ue.RelCmdSent || ue.GotRelResp {
		c.viol("ngap.unsolicited-outcome", "PDUSessionResourceReleaseResponse for UE #%d without an outstanding release command", ue.Ordinal)
	} else if c.now < ue.RelCmdAt {
		c.viol("timing.unsolicited-outcome", "PDUSessionResourceReleaseResponse reached the AMF at t=%dns, before it sent the release command (t=%dns)", c.now, ue.RelCmdAt)
	}
	ue.GotRelResp = true
	list := p.Find(ngap.IDPDUSessionResourceReleasedListRelRes)
	if list == nil {
		return
	}
	items, err := ngap.DecSessionItemList(list.Val, "PDUSessionResourceReleasedListRelRes")
	if err != nil {
		c.viol("ngap.ie-value", "%v", err)
		return
	}
	if len(items) != 1 {
		c.viol("psi.mismatch", "released list has %d items, one session was commanded", len(items))
	}
	for _, it := range items {
		c.cur.Info["psi_ngap"] = it.ID
		if it.ID != ue.PSI {
			c.viol("psi.mismatch", "released list names session %d, the UE's session is %d", it.ID, ue.PSI)
		}
		if err := ngap.DecReleaseResponseTransfer(it.Transfer); err != nil {
			c.viol("ngap.ie-value", "%v", err)
		}
	}
}

// SetSendTime lets the transport tell the core when a downlink message it
// produced actually left the AMF (used by the timing rule).
func (c *Core) SetSendTime(ueOrd int, label string, at int64) {
	if ueOrd < 0 || ueOrd >= len(c.UEs) {
		return
	}
	ue := c.UEs[ueOrd]
	switch label {
	case "PDUSessionResourceReleaseCommand":
		ue.RelCmdAt = at
	case "UEContextReleaseCommand":
		ue.CtxRelAt = at
	}
}

func (c *Core) serviceRequest(ranID int64, env nas.Envelope, tmsiIE *ngap.FiveGSTMSI) {
	c.cur.Label = "InitialUEMessage/ServiceRequest"
	// the outer message is integrity protected (and possibly ciphered); identify the UE
	ue := c.byRan[ranID]
	if ue == nil {
		c.viol("id.ran", "protected initial NAS message with RAN-UE-NGAP-ID %d that identifies no UE", ranID)
		return
	}
	c.cur.UE = ue.Ordinal
	plain := c.verifyUL(ue, env, 2)
	if plain == nil {
		return
	}
	u, err := nas.ParseUplink(plain)
	if err != nil {
		c.viol("nas.decode", "%v", err)
		return
	}
	if u.Type != nas.MTServiceRequest {
		c.viol("nas.unexpected", "protected initial NAS message type 0x%02x", u.Type)
		return
	}
	c.requireRegistered(ue, "service request")
	if !ue.SessActive {
		c.viol("prereq.session", "service request for UE #%d which has no established PDU session", ue.Ordinal)
	}
	a := c.S.AMF
	tm := mustHex(ue.P.TMSI, 4, "tmsi")
	if u.TMSIOctet1 != 0xf4 {
		c.viol("svc.tmsi-type", "5GS mobile identity of SERVICE REQUEST starts with octet 0x%02x; a 5G-S-TMSI is coded 1111 0 100 = 0xf4 (TS 24.501 9.11.3.4)", u.TMSIOctet1)
	}
	if !(bytes.Equal(u.TMSI, tm) && int(u.TMSISet) == a.SetID && int(u.TMSIPointer) == a.Pointer) {
		c.viol("svc.tmsi", "SERVICE REQUEST carries 5G-S-TMSI set=%d ptr=%d tmsi=%x; the network assigned set=%d ptr=%d tmsi=%x to this UE (TS 24.501 5.6.1)",
			u.TMSISet, u.TMSIPointer, u.TMSI, a.SetID, a.Pointer, tm)
	}
	if int(u.NgKSI&7) != ue.P.NgKSI {
		c.viol("svc.ngksi", "SERVICE REQUEST carries ngKSI %d, the current context is ngKSI %d", u.NgKSI&7, ue.P.NgKSI)
	}
	if ue.P.SvcReject != 0 {
		// the AMF refuses the service request (congestion, implicitly deregistered ...): SERVICE REJECT
		// with a 5GMM cause in a DownlinkNASTransport, TS 24.501 5.6.1.5; no context is set up
		rej := c.protectDL(ue, 2, []byte{nas.EPD5GMM, 0, 0x4d, byte(ue.P.SvcReject)})
		c.out("DownlinkNASTransport/ServiceReject", ue.Ordinal, c.dlNAS(ue, rej))
		return
	}
	ue.SvcPending = true
	indicated := false
	if uds := u.Get(0x40); uds != nil && ue.SessActive {
		psis := []int{}
		for i := 0; i < 16 && i/8 < len(uds); i++ {
			if uds[i/8]&(1<<uint(i%8)) != 0 {
				psis = append(psis, i)
				if i == ue.PSI {
					indicated = true
				}
			}
		}
		c.cur.Info["uplink_data_status"] = psis
		if !indicated {
			c.viol("psi.uplink-data-status", "uplink data status names PDU session(s) %v, the UE's only session is %d", psis, ue.PSI)
		}
	}
	// the session is re-activated when the UE indicated it or the network has downlink data pending
	ue.SvcWithPDU = ue.SessActive && (indicated || ue.P.SvcPDU)
	var psiStatus []byte
	acc := c.protectDL(ue, 2, nas.ServiceAccept(psiStatus, nil))
	ies := []ngap.IE{
		{ngap.IDAMFUENGAPID, ngap.Reject, ngap.EncAMFUENGAPID(ue.AmfID)},
		{ngap.IDRANUENGAPID, ngap.Reject, ngap.EncRANUENGAPID(ue.RanID)},
	}
	if ue.SvcWithPDU {
		ies = append(ies, ngap.IE{ngap.IDUEAggregateMaximumBitRate, ngap.Reject, must(ngap.EncAMBR(ue.P.AMBRDL, ue.P.AMBRUL))})
	}
	gp, _, _ := c.guamiPLMN()
	guami := ngap.GUAMI{PLMN: gp, Region: byte(a.Region), SetID: uint16(a.SetID), Pointer: byte(a.Pointer)}
	ies = append(ies, ngap.IE{ngap.IDGUAMI, ngap.Reject, must(ngap.EncGUAMI(guami))})
	if ue.SvcWithPDU {
		ies = append(ies, ngap.IE{ngap.IDPDUSessionResourceSetupListCxtReq, ngap.Reject, must(ngap.EncSetupItemList([]ngap.SetupItem{c.setupItem(ue, false)}))})
	}
	ies = append(ies, ngap.IE{ngap.IDAllowedNSSAI, ngap.Reject, must(ngap.EncAllowedNSSAI([]ngap.SNSSAI{c.cfgSNSSAI()}))})
	ea, ia := ue.SecCap[0], ue.SecCap[1]
	ies = append(ies, ngap.IE{ngap.IDUESecurityCapabilities, ngap.Reject, must(ngap.EncUESecurityCapabilities(ngap.UESecCap{
		NRenc: uint16(ea&0x7f) << 9, NRint: uint16(ia&0x7f) << 9}))})
	kgnb := crypto.KDF(ue.AKA.KAMF, 0x6E, []byte{0, 0, 0, byte(ue.ULNext - 1)}, []byte{0x01})
	ies = append(ies, ngap.IE{ngap.IDSecurityKey, ngap.Reject, must(ngap.EncSecurityKey(kgnb))})
	ies = append(ies, ngap.IE{ngap.IDNASPDU, ngap.Ignore, ngap.EncOctetString(acc)})
	c.out("InitialContextSetupRequest/ServiceAccept", ue.Ordinal, &ngap.PDU{Kind: ngap.Initiating, Proc: ngap.ProcInitialContextSetup, Crit: ngap.Reject, IEs: ies})
}

func (c *Core) deregistration(ue *UE, u *nas.Uplink) {
	c.cur.Label = "UplinkNASTransport/DeregistrationRequest"
	c.requireRegistered(ue, "deregistration")
	c.cur.Info["identity"] = hex.EncodeToString(u.Identity)
	if s, err := nas.DecodeSUCI(u.Identity); err != nil {
		c.viol("suci.decode", "%v", err)
	} else {
		prov, _ := c.subscriber(ue.Ordinal)
		if hm, hn := c.homePLMN(prov); s.MCC != hm || s.MNC != hn {
			c.viol("suci.plmn", "SUCI home network %s/%s, the subscriber's is %s/%s", s.MCC, s.MNC, hm, hn)
		}
		if got := s.MCC + s.MNC + s.MSIN; got != ue.SUPI {
			c.viol("suci.msin", "DEREGISTRATION REQUEST identifies %s, this context belongs to %s", got, ue.SUPI)
		}
	}
	ue.State = StDeregPending
	ue.SessActive = false
	msg := c.protectDL(ue, 2, nas.DeregistrationAccept())
	daPDU := c.dlNAS(ue, msg)
	daPDU.IEs = append(daPDU.IEs, c.dlOptIEs(ue.P.DeregNgapOpt)...)
	c.out("DownlinkNASTransport/DeregistrationAccept", ue.Ordinal, daPDU)
	rel := &ngap.PDU{Kind: ngap.Initiating, Proc: ngap.ProcUEContextRelease, Crit: ngap.Reject, IEs: []ngap.IE{
		{ngap.IDUENGAPIDs, ngap.Reject, must(ngap.EncUENGAPIDs(ue.AmfID, ue.RanID, ue.P.IDPairInRel))},
		{ngap.IDCause, ngap.Ignore, must(ngap.EncCause(ngap.Cause{Group: 2, Value: 2}))},
	}}
	c.out("UEContextReleaseCommand", ue.Ordinal, rel)
}

var ctxReleaseCompleteIEs = []ngap.IESpec{
	{ngap.IDAMFUENGAPID, ngap.Ignore, true}, {ngap.IDRANUENGAPID, ngap.Ignore, true},
	{ngap.IDUserLocationInformation, ngap.Ignore, false}, {32, ngap.Ignore, false},
	{ngap.IDPDUSessionResourceListCxtRelCpl, ngap.Reject, false}, {ngap.IDCriticalityDiagnostics, ngap.Ignore, false},
}

func (c *Core) ctxReleaseComplete(p *ngap.PDU) {
	c.cur.Label = "UEContextReleaseComplete"
	c.needSetup()
	c.checkCrit(p, ngap.Reject)
	c.checkTable(p, ctxReleaseCompleteIEs)
	c.checkULI(p)
	ue := c.idPair(p)
	if ue == nil {
		return
	}
	if ue.State != StDeregPending {
		c.viol("ngap.unsolicited-outcome", "UEContextReleaseComplete for UE #%d without an outstanding UEContextReleaseCommand (state %s)", ue.Ordinal, ue.State)
		return
	}
	if c.now < ue.CtxRelAt {
		c.viol("timing.unsolicited-outcome", "UEContextReleaseComplete reached the AMF at t=%dns, before it sent the command (t=%dns)", c.now, ue.CtxRelAt)
	}
	if ie := p.Find(ngap.IDPDUSessionResourceListCxtRelCpl); ie != nil {
		if _, err := ngap.DecSessionIDList(ie.Val, "PDUSessionResourceListCxtRelCpl"); err != nil {
			c.viol("ngap.ie-value", "%v", err)
		}
	}
	ue.State = StGone
	ue.NDereg++
}

// Summary describes the end state for the parent's end-of-run oracle.
type Summary struct {
	SetupDone bool       `json:"setup_done"`
	UEs       []UEStatus `json:"ues"`
}

type UEStatus struct {
	Ordinal int    `json:"ordinal"`
	SUPI    string `json:"supi"`
	RanID   int64  `json:"ran_id"`
	AmfID   int64  `json:"amf_id"`
	State   string `json:"state"`
	PSI     int    `json:"psi"`
	Active  bool   `json:"active"`
	NEst    int    `json:"n_est"`
	NSvc    int    `json:"n_svc"`
	NRel    int    `json:"n_rel"`
	NDereg  int    `json:"n_dereg"`
	ULNext  uint32 `json:"ul_next"`
	KAMF    string `json:"kamf,omitempty"`
	KNASint string `json:"knasint,omitempty"`
	KNASenc string `json:"knasenc,omitempty"`
	UEIP    string `json:"ue_ip"`
	TEID    string `json:"teid"`
	UPFIP   string `json:"upf_ip"`
}

func (c *Core) Summary(withKeys bool) Summary {
	s := Summary{SetupDone: c.SetupDone}
	for _, ue := range c.UEs {
		st := UEStatus{Ordinal: ue.Ordinal, SUPI: ue.SUPI, RanID: ue.RanID, AmfID: ue.AmfID, State: ue.State, PSI: ue.PSI,
			Active: ue.SessActive, NEst: ue.NEst, NSvc: ue.NSvc, NRel: ue.NRel, NDereg: ue.NDereg, ULNext: ue.ULNext,
			UEIP: ue.P.UEIP, TEID: ue.P.TEID, UPFIP: ue.P.UPFIP}
		if withKeys {
			st.KAMF = hex.EncodeToString(ue.AKA.KAMF)
			st.KNASint = hex.EncodeToString(ue.KNASint)
			st.KNASenc = hex.EncodeToString(ue.KNASenc)
		}
		s.UEs = append(s.UEs, st)
	}
	return s
}
