package ngap

import (
	"fmt"

	"verifsim/per"
)

// ---------- shared helpers ----------

func done(r *per.Reader, what string) error {
	if err := r.End(); err != nil {
		return fmt.Errorf("%s: %v", what, err)
	}
	return nil
}

// seqHead writes the preamble of an extensible SEQUENCE: extension bit and
// one presence bit per OPTIONAL component.
func seqHead(w *per.Writer, opts ...bool) {
	w.Bits(0, 1)
	for _, o := range opts {
		w.Bool(o)
	}
}

// readSeqHead reads the preamble of an extensible SEQUENCE with n optional
// components. The last optional component of every NGAP SEQUENCE is
// iE-Extensions, which the reference does not expect from the emulator.
func readSeqHead(r *per.Reader, what string, n int) []bool {
	if r.Bits(1) != 0 {
		r.Failf("%s: extension additions present", what)
	}
	out := make([]bool, n)
	for i := range out {
		out[i] = r.Bool()
	}
	if n > 0 && out[n-1] {
		r.Failf("%s: iE-Extensions present", what)
	}
	return out
}

type SNSSAI struct {
	SST byte
	SD  []byte // nil or 3 octets
}

func writeSNSSAI(w *per.Writer, s SNSSAI) {
	seqHead(w, s.SD != nil, false)
	w.OctetString([]byte{s.SST}, 1, 1, false)
	if s.SD != nil {
		w.OctetString(s.SD, 3, 3, false)
	}
}

func readSNSSAI(r *per.Reader) SNSSAI {
	o := readSeqHead(r, "S-NSSAI", 2)
	var s SNSSAI
	b := r.OctetString(1, 1, false)
	if len(b) == 1 {
		s.SST = b[0]
	}
	if o[0] {
		s.SD = r.OctetString(3, 3, false)
	}
	return s
}

// ---------- integers ----------

func EncAMFUENGAPID(v int64) []byte {
	w := &per.Writer{}
	w.ConstrainedWhole(v, 0, 1099511627775)
	return w.Bytes()
}

func DecAMFUENGAPID(b []byte) (int64, error) {
	r := per.NewReader(b)
	v := r.ConstrainedWhole(0, 1099511627775)
	return v, done(r, "AMF-UE-NGAP-ID")
}

func EncRANUENGAPID(v int64) []byte {
	w := &per.Writer{}
	w.ConstrainedWhole(v, 0, 4294967295)
	return w.Bytes()
}

func DecRANUENGAPID(b []byte) (int64, error) {
	r := per.NewReader(b)
	v := r.ConstrainedWhole(0, 4294967295)
	return v, done(r, "RAN-UE-NGAP-ID")
}

func EncOctetString(v []byte) []byte { // NAS-PDU, UERadioCapability
	w := &per.Writer{}
	w.OctetString(v, 0, -1, false)
	return w.Bytes()
}

func DecOctetString(b []byte, what string) ([]byte, error) {
	r := per.NewReader(b)
	v := r.OctetString(0, -1, false)
	return v, done(r, what)
}

// ---------- NG Setup ----------

type BroadcastPLMN struct {
	PLMN   []byte
	Slices []SNSSAI
}

type SupportedTA struct {
	TAC   []byte
	PLMNs []BroadcastPLMN
}

type GlobalGNBID struct {
	PLMN    []byte
	ID      []byte
	BitLen  int
	RanKind int // CHOICE index of GlobalRANNodeID (0 = globalGNB-ID)
}

func DecGlobalRANNodeID(b []byte) (GlobalGNBID, error) {
	r := per.NewReader(b)
	var g GlobalGNBID
	g.RanKind = r.Choice(4, false)
	if r.Err == nil && g.RanKind != 0 {
		return g, fmt.Errorf("GlobalRANNodeID: alternative %d is not globalGNB-ID", g.RanKind)
	}
	readSeqHead(r, "GlobalGNB-ID", 1)
	g.PLMN = r.OctetString(3, 3, false)
	if c := r.Choice(2, false); r.Err == nil && c != 0 {
		return g, fmt.Errorf("GNB-ID: alternative %d is not gNB-ID", c)
	}
	g.ID, g.BitLen = r.BitString(22, 32, false)
	return g, done(r, "GlobalRANNodeID")
}

func DecRANNodeName(b []byte) (string, error) {
	r := per.NewReader(b)
	s := r.PrintableString(1, 150, true)
	return s, done(r, "RANNodeName")
}

func DecSupportedTAList(b []byte) ([]SupportedTA, error) {
	r := per.NewReader(b)
	n := r.SizeLength(1, 256)
	var out []SupportedTA
	for i := 0; i < n && r.Err == nil; i++ {
		readSeqHead(r, "SupportedTAItem", 1)
		var ta SupportedTA
		ta.TAC = r.OctetString(3, 3, false)
		m := r.SizeLength(1, 12)
		for j := 0; j < m && r.Err == nil; j++ {
			readSeqHead(r, "BroadcastPLMNItem", 1)
			var bp BroadcastPLMN
			bp.PLMN = r.OctetString(3, 3, false)
			k := r.SizeLength(1, 1024)
			for l := 0; l < k && r.Err == nil; l++ {
				readSeqHead(r, "SliceSupportItem", 1)
				bp.Slices = append(bp.Slices, readSNSSAI(r))
			}
			ta.PLMNs = append(ta.PLMNs, bp)
		}
		out = append(out, ta)
	}
	return out, done(r, "SupportedTAList")
}

func DecEnum(b []byte, n int, ext bool, what string) (int, error) {
	r := per.NewReader(b)
	v := r.Enum(n, ext)
	return v, done(r, what)
}

func EncPrintable(s string) ([]byte, error) { // AMFName
	w := &per.Writer{}
	w.PrintableString(s, 1, 150, true)
	return w.Bytes(), w.Err
}

type GUAMI struct {
	PLMN    []byte
	Region  byte   // 8 bits
	SetID   uint16 // 10 bits
	Pointer byte   // 6 bits
}

func writeGUAMI(w *per.Writer, g GUAMI) {
	seqHead(w, false)
	w.OctetString(g.PLMN, 3, 3, false)
	w.BitString([]byte{g.Region}, 8, 8, 8, false)
	w.BitString([]byte{byte(g.SetID >> 2), byte(g.SetID << 6)}, 10, 10, 10, false)
	w.BitString([]byte{g.Pointer << 2}, 6, 6, 6, false)
}

func EncGUAMI(g GUAMI) ([]byte, error) {
	w := &per.Writer{}
	writeGUAMI(w, g)
	return w.Bytes(), w.Err
}

type ServedGUAMI struct {
	GUAMI  GUAMI
	Backup string // "" = absent
}

func EncServedGUAMIList(l []ServedGUAMI) ([]byte, error) {
	w := &per.Writer{}
	w.SizeLength(len(l), 1, 256)
	for _, it := range l {
		seqHead(w, it.Backup != "", false)
		writeGUAMI(w, it.GUAMI)
		if it.Backup != "" {
			w.PrintableString(it.Backup, 1, 150, true)
		}
	}
	return w.Bytes(), w.Err
}

func EncRelativeAMFCapacity(v int) ([]byte, error) {
	w := &per.Writer{}
	w.ConstrainedWhole(int64(v), 0, 255)
	return w.Bytes(), w.Err
}

type PLMNSupport struct {
	PLMN   []byte
	Slices []SNSSAI
}

func EncPLMNSupportList(l []PLMNSupport) ([]byte, error) {
	w := &per.Writer{}
	w.SizeLength(len(l), 1, 12)
	for _, it := range l {
		seqHead(w, false)
		w.OctetString(it.PLMN, 3, 3, false)
		w.SizeLength(len(it.Slices), 1, 1024)
		for _, s := range it.Slices {
			seqHead(w, false)
			writeSNSSAI(w, s)
		}
	}
	return w.Bytes(), w.Err
}

// ---------- UserLocationInformation ----------

type ULI struct {
	Kind      int // CHOICE index: 0 eutra, 1 nr, 2 n3iwf
	CGIPLMN   []byte
	Cell      []byte // 36 bits
	TAIPLMN   []byte
	TAC       []byte
	TimeStamp []byte
}

func DecULI(b []byte) (ULI, error) {
	r := per.NewReader(b)
	var u ULI
	u.Kind = r.Choice(4, false)
	if r.Err == nil && u.Kind != 1 {
		return u, fmt.Errorf("UserLocationInformation: alternative %d is not NR", u.Kind)
	}
	o := readSeqHead(r, "UserLocationInformationNR", 2)
	readSeqHead(r, "NR-CGI", 1)
	u.CGIPLMN = r.OctetString(3, 3, false)
	u.Cell, _ = r.BitString(36, 36, false)
	readSeqHead(r, "TAI", 1)
	u.TAIPLMN = r.OctetString(3, 3, false)
	u.TAC = r.OctetString(3, 3, false)
	if o[0] {
		u.TimeStamp = r.OctetString(4, 4, false)
	}
	return u, done(r, "UserLocationInformation")
}

type FiveGSTMSI struct {
	SetID   uint16
	Pointer byte
	TMSI    []byte
}

func DecFiveGSTMSI(b []byte) (FiveGSTMSI, error) {
	r := per.NewReader(b)
	var t FiveGSTMSI
	readSeqHead(r, "FiveG-S-TMSI", 1)
	s, _ := r.BitString(10, 10, false)
	if len(s) == 2 {
		t.SetID = uint16(s[0])<<2 | uint16(s[1])>>6
	}
	p, _ := r.BitString(6, 6, false)
	if len(p) == 1 {
		t.Pointer = p[0] >> 2
	}
	t.TMSI = r.OctetString(4, 4, false)
	return t, done(r, "FiveG-S-TMSI")
}

// ---------- transport layer ----------

type GTPTunnel struct {
	Addr    []byte // transport layer address bits
	AddrLen int    // in bits
	TEID    []byte
}

func writeUPTNL(w *per.Writer, t GTPTunnel) {
	w.Choice(0, 2, false)
	seqHead(w, false)
	w.BitString(t.Addr, t.AddrLen, 1, 160, true)
	w.OctetString(t.TEID, 4, 4, false)
}

func readUPTNL(r *per.Reader) GTPTunnel {
	var t GTPTunnel
	if c := r.Choice(2, false); r.Err == nil && c != 0 {
		r.Failf("UPTransportLayerInformation: alternative %d is not gTPTunnel", c)
	}
	readSeqHead(r, "GTPTunnel", 1)
	t.Addr, t.AddrLen = r.BitString(1, 160, true)
	t.TEID = r.OctetString(4, 4, false)
	return t
}

func EncUPTNL(t GTPTunnel) ([]byte, error) {
	w := &per.Writer{}
	writeUPTNL(w, t)
	return w.Bytes(), w.Err
}

// ---------- response lists sent by the gNB ----------

type AssocQosFlow struct {
	QFI     int
	Mapping int // -1 absent
}

type SetupResponseTransfer struct {
	Tunnel GTPTunnel
	Flows  []AssocQosFlow
}

// DecSetupResponseTransfer decodes PDUSessionResourceSetupResponseTransfer.
func DecSetupResponseTransfer(b []byte) (SetupResponseTransfer, error) {
	r := per.NewReader(b)
	var t SetupResponseTransfer
	o := readSeqHead(r, "PDUSessionResourceSetupResponseTransfer", 4)
	if o[0] || o[1] || o[2] {
		r.Failf("PDUSessionResourceSetupResponseTransfer: optional components not modelled by the reference")
	}
	readSeqHead(r, "QosFlowPerTNLInformation", 1)
	t.Tunnel = readUPTNL(r)
	n := r.SizeLength(1, 64)
	for i := 0; i < n && r.Err == nil; i++ {
		oo := readSeqHead(r, "AssociatedQosFlowItem", 2)
		f := AssocQosFlow{Mapping: -1}
		f.QFI = int(r.Integer(0, 63, true))
		if oo[0] {
			f.Mapping = r.Enum(2, true)
		}
		t.Flows = append(t.Flows, f)
	}
	return t, done(r, "PDUSessionResourceSetupResponseTransfer")
}

type SessionItem struct {
	ID       int
	Transfer []byte
}

// DecSessionItemList decodes the SEQUENCE (SIZE(1..256)) OF {pDUSessionID,
// transfer OCTET STRING, iE-Extensions OPTIONAL, ...} shape shared by
// PDUSessionResourceSetupListSURes / ...CxtRes / ...ReleasedListRelRes.
func DecSessionItemList(b []byte, what string) ([]SessionItem, error) {
	r := per.NewReader(b)
	n := r.SizeLength(1, 256)
	var out []SessionItem
	for i := 0; i < n && r.Err == nil; i++ {
		readSeqHead(r, what+" item", 1)
		var it SessionItem
		it.ID = int(r.ConstrainedWhole(0, 255))
		it.Transfer = r.OctetString(0, -1, false)
		out = append(out, it)
	}
	return out, done(r, what)
}

// DecReleaseResponseTransfer accepts only the empty transfer.
func DecReleaseResponseTransfer(b []byte) error {
	r := per.NewReader(b)
	readSeqHead(r, "PDUSessionResourceReleaseResponseTransfer", 1)
	return done(r, "PDUSessionResourceReleaseResponseTransfer")
}

// DecSessionIDList decodes PDUSessionResourceListCxtRelCpl.
func DecSessionIDList(b []byte, what string) ([]int, error) {
	r := per.NewReader(b)
	n := r.SizeLength(1, 256)
	var out []int
	for i := 0; i < n && r.Err == nil; i++ {
		readSeqHead(r, what+" item", 1)
		out = append(out, int(r.ConstrainedWhole(0, 255)))
	}
	return out, done(r, what)
}

// ---------- downlink: context / session setup ----------

func EncAllowedNSSAI(l []SNSSAI) ([]byte, error) {
	w := &per.Writer{}
	w.SizeLength(len(l), 1, 8)
	for _, s := range l {
		seqHead(w, false)
		writeSNSSAI(w, s)
	}
	return w.Bytes(), w.Err
}

type UESecCap struct{ NRenc, NRint, EUTRAenc, EUTRAint uint16 }

func EncUESecurityCapabilities(c UESecCap) ([]byte, error) {
	w := &per.Writer{}
	seqHead(w, false)
	for _, v := range []uint16{c.NRenc, c.NRint, c.EUTRAenc, c.EUTRAint} {
		w.BitString([]byte{byte(v >> 8), byte(v)}, 16, 16, 16, true)
	}
	return w.Bytes(), w.Err
}

func EncSecurityKey(k []byte) ([]byte, error) {
	w := &per.Writer{}
	w.BitString(k, 256, 256, 256, false)
	return w.Bytes(), w.Err
}

func writeBitRate(w *per.Writer, v int64) { w.Integer(v, 0, 4000000000000, true) }

func EncAMBR(dl, ul int64) ([]byte, error) { // UEAggregateMaximumBitRate and PDUSessionAggregateMaximumBitRate
	w := &per.Writer{}
	seqHead(w, false)
	writeBitRate(w, dl)
	writeBitRate(w, ul)
	return w.Bytes(), w.Err
}

func EncInt1to256(v int, ext bool) ([]byte, error) { // RANPagingPriority (no ext), IndexToRFSP / NetworkInstance (ext)
	w := &per.Writer{}
	w.Integer(int64(v), 1, 256, ext)
	return w.Bytes(), w.Err
}

func EncMaskedIMEISV(b []byte) ([]byte, error) {
	w := &per.Writer{}
	w.BitString(b, 64, 64, 64, false)
	return w.Bytes(), w.Err
}

func EncMobilityRestrictionList(plmn []byte) ([]byte, error) {
	w := &per.Writer{}
	seqHead(w, false, false, false, false, false)
	w.OctetString(plmn, 3, 3, false)
	return w.Bytes(), w.Err
}

func EncEnum(v, n int, ext bool) ([]byte, error) {
	w := &per.Writer{}
	w.Enum(v, n, ext)
	return w.Bytes(), w.Err
}

type QosFlow struct {
	QFI           int
	FiveQI        int
	PriorityLevel int // 0 = absent (1..127)
	ARPPriority   int
	ARPCap        int
	ARPVuln       int
}

func EncQosFlowSetupRequestList(l []QosFlow) ([]byte, error) {
	w := &per.Writer{}
	w.SizeLength(len(l), 1, 64)
	for _, q := range l {
		seqHead(w, false, false) // e-RAB-ID, iE-Extensions
		w.Integer(int64(q.QFI), 0, 63, true)
		// QosFlowLevelQosParameters
		seqHead(w, false, false, false, false)
		w.Choice(0, 3, false) // nonDynamic5QI
		seqHead(w, q.PriorityLevel != 0, false, false, false)
		w.Integer(int64(q.FiveQI), 0, 255, true)
		if q.PriorityLevel != 0 {
			w.Integer(int64(q.PriorityLevel), 1, 127, true)
		}
		seqHead(w, false) // AllocationAndRetentionPriority
		w.ConstrainedWhole(int64(q.ARPPriority), 1, 15)
		w.Enum(q.ARPCap, 2, true)
		w.Enum(q.ARPVuln, 2, true)
	}
	return w.Bytes(), w.Err
}

type SecurityIndication struct{ Integrity, Confidentiality int }

func EncSecurityIndication(s SecurityIndication) ([]byte, error) {
	w := &per.Writer{}
	seqHead(w, false, false)
	w.Enum(s.Integrity, 3, true)
	w.Enum(s.Confidentiality, 3, true)
	return w.Bytes(), w.Err
}

type SetupItem struct {
	ID       int
	NAS      []byte // nil = absent
	SNSSAI   SNSSAI
	Transfer []byte
}

// EncSetupItemList encodes PDUSessionResourceSetupListSUReq / ...CxtReq.
func EncSetupItemList(l []SetupItem) ([]byte, error) {
	w := &per.Writer{}
	w.SizeLength(len(l), 1, 256)
	for _, it := range l {
		seqHead(w, it.NAS != nil, false)
		w.ConstrainedWhole(int64(it.ID), 0, 255)
		if it.NAS != nil {
			w.OctetString(it.NAS, 0, -1, false)
		}
		writeSNSSAI(w, it.SNSSAI)
		w.OctetString(it.Transfer, 0, -1, false)
	}
	return w.Bytes(), w.Err
}

type Cause struct{ Group, Value int }

// number of root values of each cause group, TS 38.413 9.4.5
var causeSizes = [...]int{45, 2, 4, 7, 6}

func writeCause(w *per.Writer, c Cause) {
	w.Choice(c.Group, 6, false)
	if c.Group < 0 || c.Group >= len(causeSizes) {
		w.Err = fmt.Errorf("cause group %d", c.Group)
		return
	}
	w.Enum(c.Value, causeSizes[c.Group], true)
}

func EncCause(c Cause) ([]byte, error) {
	w := &per.Writer{}
	writeCause(w, c)
	return w.Bytes(), w.Err
}

func EncReleaseCommandTransfer(c Cause) ([]byte, error) {
	w := &per.Writer{}
	seqHead(w, false)
	writeCause(w, c)
	return w.Bytes(), w.Err
}

// EncToReleaseList encodes PDUSessionResourceToReleaseListRelCmd.
func EncToReleaseList(l []SessionItem) ([]byte, error) {
	w := &per.Writer{}
	w.SizeLength(len(l), 1, 256)
	for _, it := range l {
		seqHead(w, false)
		w.ConstrainedWhole(int64(it.ID), 0, 255)
		w.OctetString(it.Transfer, 0, -1, false)
	}
	return w.Bytes(), w.Err
}

func EncUENGAPIDs(amf, ran int64, pair bool) ([]byte, error) {
	w := &per.Writer{}
	if pair {
		w.Choice(0, 3, false)
		seqHead(w, false)
		w.ConstrainedWhole(amf, 0, 1099511627775)
		w.ConstrainedWhole(ran, 0, 4294967295)
	} else {
		w.Choice(1, 3, false)
		w.ConstrainedWhole(amf, 0, 1099511627775)
	}
	return w.Bytes(), w.Err
}
