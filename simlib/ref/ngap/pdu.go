// Package ngap is the reference NGAP (TS 38.413) codec for the messages that
// appear on the emulator's N2 conversation. It is written from the ASN.1 of
// TS 38.413 clause 9.4 on top of verifsim/per and imports nothing from the
// repository under test.
package ngap

import (
	"fmt"

	"verifsim/per"
)

const (
	Initiating   = 0
	Successful   = 1
	Unsuccessful = 2
)

const (
	Reject = 0
	Ignore = 1
	Notify = 2
)

// Procedure codes (TS 38.413 9.4.7).
const (
	ProcDownlinkNASTransport      = 4
	ProcErrorIndication           = 9
	ProcInitialContextSetup       = 14
	ProcInitialUEMessage          = 15
	ProcNGSetup                   = 21
	ProcPDUSessionResourceRelease = 28
	ProcPDUSessionResourceSetup   = 29
	ProcUEContextRelease          = 41
	ProcUplinkNASTransport        = 46
)

// Protocol IE ids (TS 38.413 9.4.7).
const (
	IDAllowedNSSAI                              = 0
	IDAMFName                                   = 1
	IDAMFSetID                                  = 3
	IDAMFUENGAPID                               = 10
	IDCause                                     = 15
	IDCriticalityDiagnostics                    = 19
	IDDefaultPagingDRX                          = 21
	IDFiveGSTMSI                                = 26
	IDGlobalRANNodeID                           = 27
	IDGUAMI                                     = 28
	IDIndexToRFSP                               = 31
	IDMaskedIMEISV                              = 34
	IDMobilityRestrictionList                   = 36
	IDNASPDU                                    = 38
	IDOldAMF                                    = 48
	IDPDUSessionResourceFailedToSetupListCxtRes = 55
	IDPDUSessionResourceFailedToSetupListSURes  = 58
	IDPDUSessionResourceListCxtRelCpl           = 60
	IDPDUSessionResourceReleasedListRelRes      = 70
	IDPDUSessionResourceSetupListCxtReq         = 71
	IDPDUSessionResourceSetupListCxtRes         = 72
	IDPDUSessionResourceSetupListSUReq          = 74
	IDPDUSessionResourceSetupListSURes          = 75
	IDPDUSessionResourceToReleaseListRelCmd     = 79
	IDPLMNSupportList                           = 80
	IDRANNodeName                               = 82
	IDRANPagingPriority                         = 83
	IDRANUENGAPID                               = 85
	IDRelativeAMFCapacity                       = 86
	IDRRCEstablishmentCause                     = 90
	IDSecurityKey                               = 94
	IDServedGUAMIList                           = 96
	IDSupportedTAList                           = 102
	IDUEAggregateMaximumBitRate                 = 110
	IDUEContextRequest                          = 112
	IDUENGAPIDs                                 = 114
	IDUERadioCapability                         = 117
	IDUESecurityCapabilities                    = 119
	IDUserLocationInformation                   = 121
	IDDataForwardingNotPossible                 = 127
	IDNetworkInstance                           = 129
	IDPDUSessionAggregateMaximumBitRate         = 130
	IDPDUSessionType                            = 134
	IDQosFlowSetupRequestList                   = 136
	IDSecurityIndication                        = 138
	IDULNGUUPTNLInformation                     = 139
)

// IE is one ProtocolIE-Field with its value still in open-type form.
type IE struct {
	ID   int
	Crit int
	Val  []byte
}

// PDU is an NGAP-PDU whose message is an IE container.
type PDU struct {
	Kind int
	Proc int
	Crit int
	IEs  []IE
}

func (p *PDU) Name() string {
	k := [...]string{"init", "succ", "unsucc"}
	kind := "?"
	if p.Kind >= 0 && p.Kind < 3 {
		kind = k[p.Kind]
	}
	return fmt.Sprintf("%s/%d", kind, p.Proc)
}

// EncodeContainer encodes `SEQUENCE { protocolIEs ProtocolIE-Container, ... }`.
func EncodeContainer(ies []IE) ([]byte, error) {
	w := &per.Writer{}
	w.Bits(0, 1) // extension bit of the message SEQUENCE
	w.ConstrainedWhole(int64(len(ies)), 0, 65535)
	for _, ie := range ies {
		w.ConstrainedWhole(int64(ie.ID), 0, 65535)
		w.Enum(ie.Crit, 3, false)
		w.OpenType(ie.Val)
	}
	return w.Bytes(), w.Err
}

// DecodeContainer is the strict inverse of EncodeContainer.
func DecodeContainer(b []byte) ([]IE, error) {
	r := per.NewReader(b)
	if r.Bits(1) != 0 {
		r.Failf("message extension bit set")
	}
	n := int(r.ConstrainedWhole(0, 65535))
	var ies []IE
	for i := 0; i < n && r.Err == nil; i++ {
		id := int(r.ConstrainedWhole(0, 65535))
		crit := r.Enum(3, false)
		val := r.OpenType()
		if r.Err != nil {
			break
		}
		ies = append(ies, IE{ID: id, Crit: crit, Val: val})
	}
	if err := r.End(); err != nil {
		return nil, fmt.Errorf("IE container: %v", err)
	}
	return ies, nil
}

func (p *PDU) Encode() ([]byte, error) {
	body, err := EncodeContainer(p.IEs)
	if err != nil {
		return nil, err
	}
	w := &per.Writer{}
	w.Choice(p.Kind, 3, true)
	w.ConstrainedWhole(int64(p.Proc), 0, 255)
	w.Enum(p.Crit, 3, false)
	w.OpenType(body)
	return w.Bytes(), w.Err
}

// Decode strictly decodes an NGAP-PDU into its IE container form.
func Decode(b []byte) (*PDU, error) {
	r := per.NewReader(b)
	p := &PDU{}
	p.Kind = r.Choice(3, true)
	p.Proc = int(r.ConstrainedWhole(0, 255))
	p.Crit = r.Enum(3, false)
	body := r.OpenType()
	if r.Err != nil {
		return nil, fmt.Errorf("NGAP-PDU: %v", r.Err)
	}
	if err := r.End(); err != nil {
		return nil, fmt.Errorf("NGAP-PDU: %v", err)
	}
	ies, err := DecodeContainer(body)
	if err != nil {
		return nil, err
	}
	p.IEs = ies
	return p, nil
}

// Find returns the first IE with the given id.
func (p *PDU) Find(id int) *IE {
	for i := range p.IEs {
		if p.IEs[i].ID == id {
			return &p.IEs[i]
		}
	}
	return nil
}

// IESpec is one row of a TS 38.413 9.2 message table.
type IESpec struct {
	ID        int
	Crit      int
	Mandatory bool
}

// CheckIEs verifies order, presence, multiplicity and criticality of the IEs
// of a message against its table; it returns one string per deviation.
func CheckIEs(ies []IE, spec []IESpec) []string {
	var errs []string
	pos := 0
	seen := map[int]bool{}
	for _, ie := range ies {
		idx := -1
		for j, s := range spec {
			if s.ID == ie.ID {
				idx = j
				break
			}
		}
		if idx < 0 {
			errs = append(errs, fmt.Sprintf("IE id %d is not part of this message", ie.ID))
			continue
		}
		if seen[ie.ID] {
			errs = append(errs, fmt.Sprintf("IE id %d occurs more than once", ie.ID))
			continue
		}
		seen[ie.ID] = true
		if idx < pos {
			errs = append(errs, fmt.Sprintf("IE id %d out of order", ie.ID))
		} else {
			pos = idx
		}
		if spec[idx].Crit != ie.Crit {
			errs = append(errs, fmt.Sprintf("IE id %d has criticality %d, table says %d", ie.ID, ie.Crit, spec[idx].Crit))
		}
	}
	for _, s := range spec {
		if s.Mandatory && !seen[s.ID] {
			errs = append(errs, fmt.Sprintf("mandatory IE id %d missing", s.ID))
		}
	}
	return errs
}
