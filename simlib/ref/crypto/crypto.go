// Package crypto is the reference implementation of the 3GPP algorithms the
// network side of the simulation needs: Milenage (TS 35.206), the TS 33.220
// KDF with the TS 33.501 Annex A key hierarchy, 128-NEA1/NIA1 (SNOW 3G,
// TS 35.215/35.216) and 128-NEA2/NIA2 (TS 33.401 Annex B). It uses only the
// Go standard library block cipher and hash primitives.
package crypto

import (
	"crypto/aes"
	"crypto/hmac"
	"crypto/sha256"
	"encoding/binary"
	"fmt"
)

func xor16(a, b []byte) []byte {
	o := make([]byte, 16)
	for i := range o {
		o[i] = a[i] ^ b[i]
	}
	return o
}

func aesEnc(k, in []byte) []byte {
	c, err := aes.NewCipher(k)
	if err != nil {
		panic(err)
	}
	o := make([]byte, 16)
	c.Encrypt(o, in)
	return o
}

// OPc computes OPc = E_K(OP) xor OP.
func OPc(k, op []byte) []byte { return xor16(aesEnc(k, op), op) }

// rot rotates a 16-octet block left by n octets.
func rot(b []byte, n int) []byte {
	o := make([]byte, 16)
	for i := range o {
		o[i] = b[(i+n)%16]
	}
	return o
}

// F1 returns MAC-A and MAC-S (TS 35.206 4.1).
func F1(k, opc, rnd, sqn, amf []byte) (macA, macS []byte) {
	temp := aesEnc(k, xor16(rnd, opc))
	in1 := make([]byte, 16)
	copy(in1[0:6], sqn)
	copy(in1[6:8], amf)
	copy(in1[8:14], sqn)
	copy(in1[14:16], amf)
	x := rot(xor16(in1, opc), 8) // r1 = 64 bits
	x = xor16(x, temp)           // c1 = 0
	out := xor16(aesEnc(k, x), opc)
	return out[0:8], out[8:16]
}

// F2345 returns RES, CK, IK, AK and AK* (f5*).
func F2345(k, opc, rnd []byte) (res, ck, ik, ak, akStar []byte) {
	temp := aesEnc(k, xor16(rnd, opc))
	base := xor16(temp, opc)
	blk := func(r int, c byte) []byte {
		x := rot(base, r)
		x[15] ^= c
		return xor16(aesEnc(k, x), opc)
	}
	out2 := blk(0, 1)
	out3 := blk(4, 2)
	out4 := blk(8, 4)
	out5 := blk(12, 8)
	return out2[8:16], out3, out4, out2[0:6], out5[0:6]
}

// AUTN builds (SQN xor AK) || AMF || MAC-A.
func AUTN(k, opc, rnd, sqn, amf []byte) []byte {
	macA, _ := F1(k, opc, rnd, sqn, amf)
	_, _, _, ak, _ := F2345(k, opc, rnd)
	out := make([]byte, 0, 16)
	for i := 0; i < 6; i++ {
		out = append(out, sqn[i]^ak[i])
	}
	out = append(out, amf...)
	out = append(out, macA...)
	return out
}

// AUTS builds (SQN_MS xor AK*) || MAC-S with AMF = 0000.
func AUTS(k, opc, rnd, sqnMS []byte) []byte {
	_, macS := F1(k, opc, rnd, sqnMS, []byte{0, 0})
	_, _, _, _, akStar := F2345(k, opc, rnd)
	out := make([]byte, 0, 14)
	for i := 0; i < 6; i++ {
		out = append(out, sqnMS[i]^akStar[i])
	}
	return append(out, macS...)
}

// KDF is the TS 33.220 B.2 key derivation function.
func KDF(key []byte, fc byte, params ...[]byte) []byte {
	s := []byte{fc}
	for _, p := range params {
		s = append(s, p...)
		s = append(s, byte(len(p)>>8), byte(len(p)))
	}
	h := hmac.New(sha256.New, key)
	h.Write(s)
	return h.Sum(nil)
}

// SNName is the serving network name of TS 24.501 9.12.1.
func SNName(mcc, mnc string) string {
	if len(mnc) == 2 {
		mnc = "0" + mnc
	}
	return "5G:mnc" + mnc + ".mcc" + mcc + ".3gppnetwork.org"
}

// AKA5G holds everything the network derives for one 5G-AKA run.
type AKA5G struct {
	AUTN, XRES, XRESStar, CK, IK, AK, KAUSF, KSEAF, KAMF []byte
}

// Derive5GAKA runs Milenage and TS 33.501 Annex A.2, A.4, A.6, A.7.
func Derive5GAKA(k, opc, rnd, sqn, amf []byte, snName, supiDigits string, abba []byte) AKA5G {
	var a AKA5G
	a.AUTN = AUTN(k, opc, rnd, sqn, amf)
	a.XRES, a.CK, a.IK, a.AK, _ = F2345(k, opc, rnd)
	ckik := append(append([]byte{}, a.CK...), a.IK...)
	sqnXorAK := a.AUTN[0:6]
	a.KAUSF = KDF(ckik, 0x6A, []byte(snName), sqnXorAK)
	a.XRESStar = KDF(ckik, 0x6B, []byte(snName), rnd, a.XRES)[16:]
	a.KSEAF = KDF(a.KAUSF, 0x6C, []byte(snName))
	a.KAMF = KDF(a.KSEAF, 0x6D, []byte(supiDigits), abba)
	return a
}

// AlgKey derives K_NASenc (typ 1) / K_NASint (typ 2) per TS 33.501 A.8.
func AlgKey(kamf []byte, typ, alg byte) []byte {
	return KDF(kamf, 0x69, []byte{typ}, []byte{alg})[16:]
}

// ---------- AES based algorithms ----------

func nea2(key []byte, count uint32, bearer, dir byte, data []byte) []byte {
	ctr := make([]byte, 16)
	binary.BigEndian.PutUint32(ctr, count)
	ctr[4] = bearer<<3 | dir<<2
	c, err := aes.NewCipher(key)
	if err != nil {
		panic(err)
	}
	out := make([]byte, len(data))
	ks := make([]byte, 16)
	for i := 0; i < len(data); i += 16 {
		c.Encrypt(ks, ctr)
		for j := 0; j < 16 && i+j < len(data); j++ {
			out[i+j] = data[i+j] ^ ks[j]
		}
		for j := 15; j >= 0; j-- {
			ctr[j]++
			if ctr[j] != 0 {
				break
			}
		}
	}
	return out
}

func dbl(b []byte) []byte {
	o := make([]byte, 16)
	carry := byte(0)
	for i := 15; i >= 0; i-- {
		o[i] = b[i]<<1 | carry
		carry = b[i] >> 7
	}
	if carry == 1 {
		o[15] ^= 0x87
	}
	return o
}

// CMAC is AES-CMAC (NIST SP 800-38B / RFC 4493) over whole octets.
func CMAC(key, msg []byte) []byte {
	l := aesEnc(key, make([]byte, 16))
	k1 := dbl(l)
	k2 := dbl(k1)
	n := (len(msg) + 15) / 16
	complete := n > 0 && len(msg)%16 == 0
	if n == 0 {
		n = 1
	}
	last := make([]byte, 16)
	tail := msg[(n-1)*16:]
	if complete {
		copy(last, xor16(tail, k1))
	} else {
		copy(last, tail)
		last[len(tail)] = 0x80
		last = xor16(last, k2)
	}
	x := make([]byte, 16)
	for i := 0; i < n-1; i++ {
		x = aesEnc(key, xor16(x, msg[i*16:i*16+16]))
	}
	return aesEnc(key, xor16(x, last))
}

func nia2(key []byte, count uint32, bearer, dir byte, msg []byte) []byte {
	m := make([]byte, 8, 8+len(msg))
	binary.BigEndian.PutUint32(m, count)
	m[4] = bearer<<3 | dir<<2
	m = append(m, msg...)
	return CMAC(key, m)[:4]
}

// ---------- dispatch ----------

const (
	NEA0 = 0
	NEA1 = 1
	NEA2 = 2
	NIA0 = 0
	NIA1 = 1
	NIA2 = 2
)

// Cipher applies 128-NEAx to whole octets and returns a new slice.
func Cipher(alg byte, key []byte, count uint32, bearer, dir byte, data []byte) ([]byte, error) {
	switch alg {
	case NEA0:
		return append([]byte{}, data...), nil
	case NEA1:
		return uea2(key, count, bearer, dir, data), nil
	case NEA2:
		return nea2(key, count, bearer, dir, data), nil
	}
	return nil, fmt.Errorf("ciphering algorithm %d not supported by the reference", alg)
}

// MAC computes the 32-bit 128-NIAx MAC over whole octets.
func MAC(alg byte, key []byte, count uint32, bearer, dir byte, msg []byte) ([]byte, error) {
	switch alg {
	case NIA1:
		return uia2(key, count, bearer, dir, msg), nil
	case NIA2:
		return nia2(key, count, bearer, dir, msg), nil
	}
	return nil, fmt.Errorf("integrity algorithm %d not supported by the reference", alg)
}
