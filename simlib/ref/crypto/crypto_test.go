package crypto

import (
	"bytes"
	"encoding/hex"
	"testing"
)

func h(s string) []byte { b, _ := hex.DecodeString(s); return b }

func TestMilenageSet1(t *testing.T) {
	k := h("465b5ce8b199b49faa5f0a2ee238a6bc")
	rnd := h("23553cbe9637a89d218ae64dae47bf35")
	sqn := h("ff9bb4d0b607")
	amf := h("b9b9")
	op := h("cdc202d5123e20f62b6d676ac72cb318")
	opc := OPc(k, op)
	if !bytes.Equal(opc, h("cd63cb71954a9f4e48a5994e37a02baf")) {
		t.Fatalf("opc %x", opc)
	}
	a, s := F1(k, opc, rnd, sqn, amf)
	if !bytes.Equal(a, h("4a9ffac354dfafb3")) || !bytes.Equal(s, h("01cfaf9ec4e871e9")) {
		t.Fatalf("f1 %x %x", a, s)
	}
	res, ck, ik, ak, aks := F2345(k, opc, rnd)
	if !bytes.Equal(res, h("a54211d5e3ba50bf")) || !bytes.Equal(ak, h("aa689c648370")) ||
		!bytes.Equal(ck, h("b40ba9a3c58b2a05bbf0d987b21bf8cb")) || !bytes.Equal(ik, h("f769bcd751044604127672711c6d3441")) ||
		!bytes.Equal(aks, h("451e8beca43b")) {
		t.Fatalf("f2345 %x %x %x %x %x", res, ck, ik, ak, aks)
	}
}

func TestCMAC(t *testing.T) {
	k := h("2b7e151628aed2a6abf7158809cf4f3c")
	if got := CMAC(k, nil); !bytes.Equal(got, h("bb1d6929e95937287fa37d129b756746")) {
		t.Fatalf("%x", got)
	}
	if got := CMAC(k, h("6bc1bee22e409f96e93d7e117393172a")); !bytes.Equal(got, h("070a16b46b4d4144f79bdd9dd04a287c")) {
		t.Fatalf("%x", got)
	}
	if got := CMAC(k, h("6bc1bee22e409f96e93d7e117393172aae2d8a571e03ac9c9eb76fac45af8e5130c81c46a35ce411")); !bytes.Equal(got, h("dfa66747de9ae63030ca32611497c827")) {
		t.Fatalf("%x", got)
	}
}

func TestSnow3G(t *testing.T) {
	z := Snow3GKeystream([4]uint32{0x2BD6459F, 0x82C5B300, 0x952C4910, 0x4881FF48},
		[4]uint32{0xEA024714, 0xAD5C4D84, 0xDF1F9B25, 0x1C0BF45F}, 2)
	if z[0] != 0xABEE9704 || z[1] != 0x7AC31373 {
		t.Fatalf("%08x %08x", z[0], z[1])
	}
	if sq[0] != 0x25 || sq[1] != 0x24 || sq[2] != 0x73 || sq[3] != 0x67 || sr[0] != 0x63 || sr[1] != 0x7c {
		t.Fatalf("sbox %x %x %x %x", sq[0], sq[1], sq[2], sq[3])
	}
}
