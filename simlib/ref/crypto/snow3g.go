package crypto

import "encoding/binary"

// SNOW 3G (ETSI/SAGE specification, document 2) with UEA2/UIA2 (document 1),
// written from the algebraic definitions: the S-boxes are computed, not copied.

var sr, sq [256]byte

func gfMul(a, b byte, poly uint16) byte {
	var r uint16
	aa := uint16(a)
	for i := 0; i < 8; i++ {
		if b&(1<<uint(i)) != 0 {
			r ^= aa << uint(i)
		}
	}
	for i := 15; i >= 8; i-- {
		if r&(1<<uint(i)) != 0 {
			r ^= poly << uint(i-8)
		}
	}
	return byte(r)
}

func gfPow(a byte, e int, poly uint16) byte {
	r := byte(1)
	for i := 0; i < e; i++ {
		r = gfMul(r, a, poly)
	}
	return r
}

func init() {
	// Rijndael S-box: multiplicative inverse in GF(2^8)/x^8+x^4+x^3+x+1 followed by the affine map.
	for x := 0; x < 256; x++ {
		inv := byte(0)
		if x != 0 {
			inv = gfPow(byte(x), 254, 0x11b)
		}
		s := inv
		r := inv
		for i := 0; i < 4; i++ {
			r = r<<1 | r>>7
			s ^= r
		}
		sr[x] = s ^ 0x63
	}
	// SQ: Dickson polynomial g49(x) = x + x^9 + x^13 + x^15 + x^33 + x^41 + x^45 + x^47 + x^49
	// over GF(2^8)/x^8+x^6+x^5+x^3+1, xor 0x25.
	for x := 0; x < 256; x++ {
		var v byte
		for _, e := range []int{1, 9, 13, 15, 33, 41, 45, 47, 49} {
			v ^= gfPow(byte(x), e, 0x169)
		}
		sq[x] = v ^ 0x25
	}
}

func mulx(v, c byte) byte {
	if v&0x80 != 0 {
		return v<<1 ^ c
	}
	return v << 1
}

func mulxPow(v byte, i int, c byte) byte {
	for ; i > 0; i-- {
		v = mulx(v, c)
	}
	return v
}

func mulAlpha(c byte) uint32 {
	return uint32(mulxPow(c, 23, 0xa9))<<24 | uint32(mulxPow(c, 245, 0xa9))<<16 |
		uint32(mulxPow(c, 48, 0xa9))<<8 | uint32(mulxPow(c, 239, 0xa9))
}

func divAlpha(c byte) uint32 {
	return uint32(mulxPow(c, 16, 0xa9))<<24 | uint32(mulxPow(c, 39, 0xa9))<<16 |
		uint32(mulxPow(c, 6, 0xa9))<<8 | uint32(mulxPow(c, 64, 0xa9))
}

func sbox(w uint32, box *[256]byte, c byte) uint32 {
	b0, b1, b2, b3 := box[byte(w>>24)], box[byte(w>>16)], box[byte(w>>8)], box[byte(w)]
	r0 := mulx(b0, c) ^ b1 ^ b2 ^ mulx(b3, c) ^ b3
	r1 := mulx(b0, c) ^ b0 ^ mulx(b1, c) ^ b2 ^ b3
	r2 := b0 ^ mulx(b1, c) ^ b1 ^ mulx(b2, c) ^ b3
	r3 := b0 ^ b1 ^ mulx(b2, c) ^ b2 ^ mulx(b3, c)
	return uint32(r0)<<24 | uint32(r1)<<16 | uint32(r2)<<8 | uint32(r3)
}

type snow struct {
	s          [16]uint32
	r1, r2, r3 uint32
}

func (st *snow) clockFSM() uint32 {
	f := (st.s[15] + st.r1) ^ st.r2
	r := st.r2 + (st.r3 ^ st.s[5])
	st.r3 = sbox(st.r2, &sq, 0x69)
	st.r2 = sbox(st.r1, &sr, 0x1b)
	st.r1 = r
	return f
}

func (st *snow) clockLFSR(f uint32) {
	v := (st.s[0] << 8) ^ mulAlpha(byte(st.s[0]>>24)) ^ st.s[2] ^ (st.s[11] >> 8) ^ divAlpha(byte(st.s[11])) ^ f
	copy(st.s[0:15], st.s[1:16])
	st.s[15] = v
}

// newSnow initialises with k[0..3], iv[0..3] in the convention of the
// reference C code: s15 = k3^iv0, s12 = k0^iv1, s10 = k2^1^iv2, s9 = k1^1^iv3.
func newSnow(k, iv [4]uint32) *snow {
	st := &snow{}
	one := uint32(0xffffffff)
	st.s[15] = k[3] ^ iv[0]
	st.s[14] = k[2]
	st.s[13] = k[1]
	st.s[12] = k[0] ^ iv[1]
	st.s[11] = k[3] ^ one
	st.s[10] = k[2] ^ one ^ iv[2]
	st.s[9] = k[1] ^ one ^ iv[3]
	st.s[8] = k[0] ^ one
	st.s[7] = k[3]
	st.s[6] = k[2]
	st.s[5] = k[1]
	st.s[4] = k[0]
	st.s[3] = k[3] ^ one
	st.s[2] = k[2] ^ one
	st.s[1] = k[1] ^ one
	st.s[0] = k[0] ^ one
	for i := 0; i < 32; i++ {
		f := st.clockFSM()
		st.clockLFSR(f)
	}
	st.clockFSM()
	st.clockLFSR(0)
	return st
}

func (st *snow) word() uint32 {
	f := st.clockFSM()
	z := f ^ st.s[0]
	st.clockLFSR(0)
	return z
}

// Snow3GKeystream exposes the raw generator for the self-test vector.
func Snow3GKeystream(k, iv [4]uint32, n int) []uint32 {
	st := newSnow(k, iv)
	out := make([]uint32, n)
	for i := range out {
		out[i] = st.word()
	}
	return out
}

func keyWords(key []byte) [4]uint32 {
	var k [4]uint32
	for i := 0; i < 4; i++ {
		k[3-i] = binary.BigEndian.Uint32(key[4*i:])
	}
	return k
}

func uea2(key []byte, count uint32, bearer, dir byte, data []byte) []byte {
	var iv [4]uint32
	iv[3] = count
	iv[2] = uint32(bearer)<<27 | uint32(dir&1)<<26
	iv[1] = iv[3]
	iv[0] = iv[2]
	st := newSnow(keyWords(key), iv)
	out := make([]byte, len(data))
	var ks [4]byte
	for i := 0; i < len(data); i++ {
		if i%4 == 0 {
			binary.BigEndian.PutUint32(ks[:], st.word())
		}
		out[i] = data[i] ^ ks[i%4]
	}
	return out
}

func mul64x(v, c uint64) uint64 {
	if v&0x8000000000000000 != 0 {
		return v<<1 ^ c
	}
	return v << 1
}

func mul64(v, p, c uint64) uint64 {
	var r uint64
	x := v
	for i := 0; i < 64; i++ {
		if (p>>uint(i))&1 == 1 {
			r ^= x
		}
		x = mul64x(x, c)
	}
	return r
}

func uia2(key []byte, count uint32, bearer, dir byte, msg []byte) []byte {
	fresh := uint32(bearer) << 27
	var iv [4]uint32
	iv[3] = count
	iv[2] = fresh
	iv[1] = count ^ uint32(dir&1)<<31
	iv[0] = fresh ^ uint32(dir&1)<<15
	st := newSnow(keyWords(key), iv)
	var z [5]uint32
	for i := range z {
		z[i] = st.word()
	}
	p := uint64(z[0])<<32 | uint64(z[1])
	q := uint64(z[2])<<32 | uint64(z[3])
	length := uint64(len(msg)) * 8
	var eval uint64
	const c = 0x1b
	// all blocks, the last one zero padded (whole octets only, so masking = padding)
	nblk := (len(msg) + 7) / 8
	if nblk == 0 {
		nblk = 1
	}
	for i := 0; i < nblk; i++ {
		var blk [8]byte
		if i*8 < len(msg) {
			copy(blk[:], msg[i*8:])
		}
		eval = mul64(eval^binary.BigEndian.Uint64(blk[:]), p, c)
	}
	eval ^= length
	eval = mul64(eval, q, c)
	mac := uint32(eval>>32) ^ z[4]
	out := make([]byte, 4)
	binary.BigEndian.PutUint32(out, mac)
	return out
}
