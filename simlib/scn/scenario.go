// Package scn defines the explicit scenario a simulated run executes.
package scn

import (
	"encoding/json"
	"os"
)

// Config mirrors the documented keys of config.yaml with the values the
// parent intends; the parent writes the file, the reference core uses these
// intended values as its subscriber database and expectations.
type Config struct {
	AmfNgapIP    string `json:"amf_ngap_ip"`
	AmfNgapPort  int    `json:"amf_ngap_port"`
	GnbGtpIP     string `json:"gnb_gtp_ip"`
	StgNgapIP    string `json:"stg_ngap_ip"`
	StgNgapPort  int    `json:"stg_ngap_port"`
	GnbIDHex     string `json:"gnb_id_hex"` // octets of gnb_id
	GnbBitLength int    `json:"gnb_bitlength"`
	GnbName      string `json:"gnb_name"`
	IMSI         string `json:"initial_imsi"`
	MCC          string `json:"mcc"`
	MNC          string `json:"mnc"`
	K            string `json:"k"`
	OPC          string `json:"opc"`
	OP           string `json:"op"`
	SST          int    `json:"sst"`
	SD           string `json:"sd"`
	DLIface      string `json:"downlink_iface"`
	ULIface      string `json:"uplink_iface"`
	UENumber     int    `json:"ue_number"`
	NReg         int    `json:"ue_registration"`
	NPdu         int    `json:"ue_pdu"`
	NSvc         int    `json:"ue_service"`
	NRel         int    `json:"ue_pdu_release"`
	NDereg       int    `json:"ue_deregistration"`
}

// UEParams are the choices the network makes for one registering UE.
type UEParams struct {
	RAND     string `json:"rand"`
	SQN      string `json:"sqn"`
	AMFField string `json:"amf"`
	AmfUeID  int64  `json:"amf_ue_ngap_id"`
	NgKSI    int    `json:"ngksi"`
	TMSI     string `json:"tmsi"`
	// optional IEs / variants
	AuthOptIEs  int `json:"auth_opt"`  // bit set of optional IEs added to the DownlinkNASTransport carrying AUTHENTICATION REQUEST (placed after NAS-PDU)
	SMCOpt      int `json:"smc_opt"`   // bit 0 IMEISV request, bit 1 additional 5G security information, bit 2 ABBA
	ICSOpt      int `json:"ics_opt"`   // optional IEs of InitialContextSetupRequest
	RadioCapLen int `json:"radio_cap_len,omitempty"` // octets of the UERadioCapability IE when present (0 = 4)
	RegAccOpt   int `json:"regacc_opt"`
	CUCOpt      int `json:"cuc_opt"`
	SMCNgapOpt  int  `json:"smc_ngap_opt,omitempty"` // optional IEs of the DownlinkNASTransport carrying SECURITY MODE COMMAND (after NAS-PDU)
	CUCNgapOpt  int  `json:"cuc_ngap_opt,omitempty"` // same for the one carrying CONFIGURATION UPDATE COMMAND
	DeregNgapOpt int `json:"dereg_ngap_opt,omitempty"` // same for the one carrying DEREGISTRATION ACCEPT
	IDPairInRel bool `json:"id_pair"` // UEContextReleaseCommand carries the id pair (else AMF id only)
	// session
	UEIP       string `json:"ue_ip"`
	TEID       string `json:"teid"`
	UPFIP      string `json:"upf_ip"`
	QoSRuleLen int    `json:"qos_rule_len"`
	AccOpt     int    `json:"acc_opt"` // bit set over the optional IEs of the ESTABLISHMENT ACCEPT (table order)
	AccLens    []int  `json:"acc_lens,omitempty"`
	AMBRDL     int64  `json:"ambr_dl"`
	AMBRUL     int64  `json:"ambr_ul"`
	// SessAMBR is the value part of the mandatory Session-AMBR IE of the ESTABLISHMENT ACCEPT as hex
	// (unit, 2 value octets, unit, 2 value octets); empty = 1 Mbps units, 100/50.
	SessAMBR string `json:"sess_ambr,omitempty"`
	TransOpt   int    `json:"trans_opt"` // optional IEs of the setup request transfer
	SetupOpt   int    `json:"setup_opt"` // optional top-level IEs of PDUSessionResourceSetupRequest
	FiveQI     int    `json:"five_qi"`
	SvcPDU     bool   `json:"svc_pdu"` // service accept re-activates the session (PDU list in the ICS request)
	// Fill selects what the variable-length fields of the accept are filled with: 0 random octets,
	// 1 octets that are IEIs/IE ids/length-like values, 2 the PDU address IEI 0x29 throughout,
	// 3 repeated well-formed decoy PDU address IEs (29 05 01 a.b.c.d).
	Fill     int `json:"fill,omitempty"`
	CauseVal int `json:"cause_val,omitempty"` // 5GSM cause value when the cause IE is present (default #50)
	// SvcReject, if not 0, makes the AMF answer this UE's SERVICE REQUEST with a SERVICE REJECT (5GMM
	// cause) in a DownlinkNASTransport instead of setting the context up.
	SvcReject int `json:"svc_reject,omitempty"`
	// NFlows is the number of QoS flows in the setup request transfer (0 = one).
	NFlows int `json:"n_flows,omitempty"`
	// EstReject, if not 0, makes the SMF answer this UE's PDU SESSION ESTABLISHMENT REQUEST with a
	// PDU SESSION ESTABLISHMENT REJECT carrying this 5GSM cause: the UE never has a session.
	EstReject int `json:"est_reject,omitempty"`
}

// Cred is one subscriber's authentication data as it would be configured (hex strings; OPC may be
// empty for an OP-only subscription, OP may be empty when OPC is given).
type Cred struct {
	K   string `json:"k"`
	OPC string `json:"opc"`
	OP  string `json:"op"`
}

// AMFParams are association-level choices of the network.
type AMFParams struct {
	Name     string `json:"name"`
	Region   int    `json:"region"`
	SetID    int    `json:"set_id"`
	Pointer  int    `json:"pointer"`
	Capacity int    `json:"capacity"`
	Backup   string `json:"backup,omitempty"`
	NSlices  int    `json:"nslices"`
	// further PLMNs the AMF serves (3 digits MCC + 2/3 digits MNC each), listed before / after the
	// gNB's own PLMN in PLMNSupportList and ServedGUAMIList
	PLMNsBefore []string `json:"plmns_before,omitempty"`
	PLMNsAfter  []string `json:"plmns_after,omitempty"`
	// GUAMIPLMN, if set (MCC + MNC digits), is the PLMN of the AMF's own GUAMI (a shared AMF hosted by
	// another operator): ServedGUAMIList, the GUAMI of context setup requests and the 5G-GUTI carry it,
	// while PLMNSupportList contains the gNB's PLMN as well.
	GUAMIPLMN string `json:"guami_plmn,omitempty"`
}

// Latency describes the network's timing.
type Latency struct {
	Class string  `json:"class"`
	UL    int64   `json:"ul_ns"`            // gNB -> AMF transit
	Proc  []int64 `json:"proc_ns,omitempty"` // per downlink message (cyclic): time the core needs before it sends
	DL    []int64 `json:"dl_ns,omitempty"`   // per downlink message (cyclic): AMF -> gNB transit
}

// Fault is one injected fault.
type Fault struct {
	Kind  string `json:"kind"` // dial_fail | close_before | abort_before | garbage | write_err
	K     int    `json:"k"`    // downlink message index (or write index for write_err)
	Class string `json:"class,omitempty"`
}

// Scenario is everything a run depends on besides the code under test.
type Scenario struct {
	Seed    uint64     `json:"seed"`
	Profile string     `json:"profile"`
	Config  Config     `json:"config"`
	Args    []string   `json:"args"`
	AMF     AMFParams  `json:"amf"`
	UEs     []UEParams `json:"ues"`
	UESeed  uint64     `json:"ue_seed"` // parameters of UEs beyond len(UEs) derive from this
	Lat     Latency    `json:"lat"`
	Faults  []Fault    `json:"faults,omitempty"`
	// Population is the number of distinct subscribers provisioned (IMSI .. IMSI+Population-1).
	Population int `json:"population"`
	// Subscribers, if set, lists the SUPI digits of the registering UEs explicitly (procedure-level
	// runs; a subscriber may belong to another PLMN than the serving one: a roamer).
	Subscribers []string `json:"subscribers,omitempty"`
	// SubCreds, if set, gives subscriber i its own credentials (index-aligned with Subscribers);
	// an empty K means the configured ones. Several operators' subscribers in one process.
	SubCreds []Cred `json:"sub_creds,omitempty"`
	// ResetupPLMN, if set (MCC + MNC digits), is the PLMN a second NG Setup on the association announces.
	ResetupPLMN string `json:"resetup_plmn,omitempty"`
	// Quiet suppresses hex dumps in the event log (large population runs).
	Quiet bool `json:"quiet,omitempty"`
	// Rig specific free-form parameters (PS / LS rigs).
	Rig map[string]interface{} `json:"rig,omitempty"`
}

func LoadScenario(path string) (*Scenario, error) {
	b, err := os.ReadFile(path)
	if err != nil {
		return nil, err
	}
	s := &Scenario{}
	if err := json.Unmarshal(b, s); err != nil {
		return nil, err
	}
	return s, nil
}
