// Package kernel holds the pieces every rig shares: the PRNG whose single
// seed decides every choice, and small helpers.
package kernel

import "hash/fnv"

// Rand is splitmix64. Streams are derived by label so that adding a draw in
// one component never shifts the values another component sees.
type Rand struct{ s uint64 }

func New(seed uint64) *Rand { return &Rand{s: seed} }

func (r *Rand) Uint64() uint64 {
	r.s += 0x9e3779b97f4a7c15
	z := r.s
	z = (z ^ (z >> 30)) * 0xbf58476d1ce4e5b9
	z = (z ^ (z >> 27)) * 0x94d049bb133111eb
	return z ^ (z >> 31)
}

// Sub derives an independent stream keyed by label.
func (r *Rand) Sub(label string) *Rand {
	h := fnv.New64a()
	h.Write([]byte(label))
	x := New(r.s ^ h.Sum64())
	x.Uint64()
	return New(x.Uint64())
}

// Intn returns a value in 0..n-1 (n>0).
func (r *Rand) Intn(n int) int { return int(r.Uint64() % uint64(n)) }

func (r *Rand) Int63n(n int64) int64 { return int64(r.Uint64() % uint64(n)) }

// Range returns a value in lo..hi inclusive.
func (r *Rand) Range(lo, hi int) int { return lo + r.Intn(hi-lo+1) }

func (r *Rand) Bool() bool { return r.Uint64()&1 == 1 }

// Chance is true with probability num/den.
func (r *Rand) Chance(num, den int) bool { return r.Intn(den) < num }

func (r *Rand) Bytes(n int) []byte {
	b := make([]byte, n)
	for i := range b {
		b[i] = byte(r.Uint64())
	}
	return b
}

func (r *Rand) Float() float64 { return float64(r.Uint64()>>11) / (1 << 53) }

// Pick returns one of the given ints.
func (r *Rand) Pick(v ...int) int { return v[r.Intn(len(v))] }

func (r *Rand) Digits(n int) string {
	b := make([]byte, n)
	for i := range b {
		b[i] = byte('0' + r.Intn(10))
	}
	return string(b)
}
