// Package simrt is the controlled-concurrency runtime the C20 rig links into
// an instrumented scratch copy of the repository's libraries. Tasks are real
// goroutines, but exactly one runs at a time: at every instrumented yield
// point the seeded scheduler decides who continues. The decision list is the
// schedule; it replays exactly and can be shrunk by removing switches.
package simrt

import (
	"fmt"
	"sync"
)

// Decision is one context switch: at global step Step control went to task To.
type Decision struct {
	Step int `json:"step"`
	To   int `json:"to"`
}

// Conflict is one pair of overlapping operations touching the same variable, at least one writing.
type Conflict struct {
	Var        string `json:"var"`
	TaskA      int    `json:"task_a"`
	TaskB      int    `json:"task_b"`
	WriteA     bool   `json:"write_a"`
	WriteB     bool   `json:"write_b"`
	OpA        int    `json:"op_a"`
	OpB        int    `json:"op_b"`
	Step       int    `json:"step"`
	CommonLock bool   `json:"-"`
}

type access struct {
	op    int
	write bool
	locks map[string]bool
}

type task struct {
	id     int
	gate   chan struct{}
	done   bool
	op     int // current operation index, -1 outside operations
	opSeq  int // increases with every BeginOp
	locks  map[string]bool
	waitOn string // lock the task waits for
	// accesses of the current operation: var -> access
	acc map[string]*access
}

// Chooser decides, at a yield point, which task continues. cur may be -1 (current finished).
type Chooser func(step int, cur int, runnable []int, atAccess bool) int

type runtime struct {
	mu        sync.Mutex
	active    bool
	tasks     []*task
	cur       int
	step      int
	choose    Chooser
	decisions []Decision
	conflicts []Conflict
	seenConf  map[string]bool
	lockOwner map[string]int
	sites     map[int]int
	panics    []string
	finished  chan struct{}
	switches  int
	inOpSw    int
}

var rt runtime

// Result is what a controlled run produced.
type Result struct {
	Decisions      []Decision
	Conflicts      []Conflict
	Steps          int
	Switches       int
	SwitchesInOps  int
	Panics         []string
	DistinctSites  int
}

// Run executes the task bodies under the chooser. Each body receives its task id.
func Run(bodies []func(id int), choose Chooser) Result {
	rt = runtime{active: true, choose: choose, seenConf: map[string]bool{}, lockOwner: map[string]int{}, sites: map[int]int{}, finished: make(chan struct{})}
	for i := range bodies {
		rt.tasks = append(rt.tasks, &task{id: i, gate: make(chan struct{}, 1), op: -1, locks: map[string]bool{}, acc: map[string]*access{}})
	}
	for i, b := range bodies {
		i, b := i, b
		go func() {
			<-rt.tasks[i].gate
			defer func() {
				if p := recover(); p != nil {
					rt.panics = append(rt.panics, fmt.Sprintf("task %d: %v", i, p))
				}
				finish(i)
			}()
			b(i)
		}()
	}
	first := choose(0, -1, runnable(), false)
	rt.cur = first
	rt.decisions = append(rt.decisions, Decision{0, first})
	rt.tasks[first].gate <- struct{}{}
	<-rt.finished
	rt.active = false
	return Result{Decisions: rt.decisions, Conflicts: rt.conflicts, Steps: rt.step, Switches: rt.switches, SwitchesInOps: rt.inOpSw, Panics: rt.panics, DistinctSites: len(rt.sites)}
}

func runnable() []int {
	var out []int
	for _, t := range rt.tasks {
		if t.done {
			continue
		}
		if t.waitOn != "" {
			if _, held := rt.lockOwner[t.waitOn]; held {
				continue
			}
		}
		out = append(out, t.id)
	}
	return out
}

func finish(id int) {
	t := rt.tasks[id]
	t.done = true
	t.op = -1
	for l := range t.locks { // a task that ends holding a lock releases it in the model
		delete(rt.lockOwner, l)
	}
	r := runnable()
	if len(r) == 0 {
		close(rt.finished)
		return
	}
	rt.step++
	next := rt.choose(rt.step, -1, r, false)
	rt.cur = next
	rt.decisions = append(rt.decisions, Decision{rt.step, next})
	rt.tasks[next].gate <- struct{}{}
}

func yield(atAccess bool) {
	t := rt.tasks[rt.cur]
	rt.step++
	r := runnable()
	if len(r) == 0 {
		return
	}
	next := rt.choose(rt.step, t.id, r, atAccess)
	if next == t.id {
		return
	}
	ok := false
	for _, x := range r {
		if x == next {
			ok = true
		}
	}
	if !ok {
		return
	}
	rt.decisions = append(rt.decisions, Decision{rt.step, next})
	rt.switches++
	if t.op >= 0 {
		rt.inOpSw++
	}
	rt.cur = next
	rt.tasks[next].gate <- struct{}{}
	<-t.gate
}

// Yield is inserted at function entries and loop back-edges of the instrumented code.
func Yield(site int) {
	if !rt.active {
		return
	}
	rt.sites[site]++
	yield(false)
}

// BeginOp / EndOp bracket one library call of the workload.
func BeginOp(op int) {
	if !rt.active {
		return
	}
	t := rt.tasks[rt.cur]
	t.op = op
	t.opSeq++
	t.acc = map[string]*access{}
}

func EndOp() {
	if !rt.active {
		return
	}
	t := rt.tasks[rt.cur]
	t.op = -1
	t.acc = map[string]*access{}
}

// SyncPoint is inserted before a statement that uses a self-synchronised package-level variable
// (sync.Map, sync.Pool, atomic.Value, an atomic.AddInt64(&v, ...) call): a preemption point the
// scheduler may use like a shared access, but never one side of a data race.
func SyncPoint(v string) {
	if !rt.active {
		return
	}
	yield(true)
}

// Access is inserted before every statement that touches a mutable package-level variable.
func Access(v string, write bool) {
	if !rt.active {
		return
	}
	yield(true)
	t := rt.tasks[rt.cur]
	if t.op < 0 {
		return
	}
	a := t.acc[v]
	if a == nil {
		a = &access{op: t.op, locks: map[string]bool{}}
		for l := range t.locks {
			a.locks[l] = true
		}
		t.acc[v] = a
	} else {
		// keep only the locks held at every access of this operation
		for l := range a.locks {
			if !t.locks[l] {
				delete(a.locks, l)
			}
		}
	}
	if write {
		a.write = true
	}
	// conflict with any other task whose current operation is still in progress and touched v
	for _, u := range rt.tasks {
		if u.id == t.id || u.op < 0 || u.done {
			continue
		}
		b := u.acc[v]
		if b == nil || !(a.write || b.write || write) {
			continue
		}
		common := false
		for l := range a.locks {
			if b.locks[l] {
				common = true
			}
		}
		if common {
			continue
		}
		key := v
		if !rt.seenConf[key] {
			rt.seenConf[key] = true
			rt.conflicts = append(rt.conflicts, Conflict{Var: v, TaskA: t.id, TaskB: u.id, WriteA: a.write, WriteB: b.write, OpA: t.op, OpB: u.op, Step: rt.step})
		}
	}
}

// BeforeLock is inserted before X.Lock()/X.RLock(): the task waits in the model until the lock is free,
// so that the real mutex is never contended while its holder is parked.
func BeforeLock(key string) {
	if !rt.active {
		return
	}
	t := rt.tasks[rt.cur]
	for {
		if _, held := rt.lockOwner[key]; !held {
			break
		}
		t.waitOn = key
		r := runnable()
		if len(r) == 0 {
			panic("simrt: deadlock on " + key)
		}
		rt.step++
		next := rt.choose(rt.step, -1, r, false)
		rt.decisions = append(rt.decisions, Decision{rt.step, next})
		rt.switches++
		rt.cur = next
		rt.tasks[next].gate <- struct{}{}
		<-t.gate
	}
	t.waitOn = ""
	rt.lockOwner[key] = t.id
	t.locks[key] = true
}

// AfterUnlock is inserted after X.Unlock()/X.RUnlock().
func AfterUnlock(key string) {
	if !rt.active {
		return
	}
	t := rt.tasks[rt.cur]
	delete(rt.lockOwner, key)
	delete(t.locks, key)
	yield(false)
}
