// Package per is a small ITU-T X.691 ALIGNED PER primitive engine written
// from the recommendation; it shares no code with the repository under test.
package per

import (
	"errors"
	"fmt"
)

// Writer accumulates an aligned-PER bit stream.
type Writer struct {
	buf   []byte
	nbits int
	Err   error
}

func (w *Writer) fail(format string, a ...interface{}) {
	if w.Err == nil {
		w.Err = fmt.Errorf(format, a...)
	}
}

// Bits appends the n low bits of v, most significant first.
func (w *Writer) Bits(v uint64, n int) {
	for i := n - 1; i >= 0; i-- {
		if w.nbits%8 == 0 {
			w.buf = append(w.buf, 0)
		}
		if (v>>uint(i))&1 == 1 {
			w.buf[w.nbits/8] |= 0x80 >> uint(w.nbits%8)
		}
		w.nbits++
	}
}

func (w *Writer) Bool(b bool) {
	if b {
		w.Bits(1, 1)
	} else {
		w.Bits(0, 1)
	}
}

// Align pads with zero bits to an octet boundary.
func (w *Writer) Align() {
	for w.nbits%8 != 0 {
		w.nbits++
	}
}

func (w *Writer) Octets(b []byte) {
	if w.nbits%8 == 0 {
		w.buf = append(w.buf, b...)
		w.nbits += 8 * len(b)
		return
	}
	for _, x := range b {
		w.Bits(uint64(x), 8)
	}
}

// Bytes returns the encoding padded to whole octets (at least one octet,
// X.691 10.1.3).
func (w *Writer) Bytes() []byte {
	if len(w.buf) == 0 {
		return []byte{0}
	}
	out := make([]byte, len(w.buf))
	copy(out, w.buf)
	return out
}

func bitsFor(rng uint64) int { // number of bits to hold values 0..rng-1
	n := 0
	for (uint64(1) << uint(n)) < rng {
		n++
	}
	return n
}

func octetsFor(v uint64) int {
	n := 1
	for v > 0xff {
		v >>= 8
		n++
	}
	return n
}

// ConstrainedWhole encodes v in lb..ub per X.691 10.5.7 (aligned variant).
func (w *Writer) ConstrainedWhole(v, lb, ub int64) {
	if v < lb || v > ub {
		w.fail("value %d outside %d..%d", v, lb, ub)
		return
	}
	rng := uint64(ub-lb) + 1
	off := uint64(v - lb)
	switch {
	case rng == 1:
	case rng <= 255:
		w.Bits(off, bitsFor(rng))
	case rng == 256:
		w.Align()
		w.Bits(off, 8)
	case rng <= 65536:
		w.Align()
		w.Bits(off, 16)
	default:
		maxOct := octetsFor(uint64(ub - lb))
		n := octetsFor(off)
		w.ConstrainedWhole(int64(n), 1, int64(maxOct))
		w.Align()
		w.Bits(off, 8*n)
	}
}

// Length encodes an unconstrained / semi-constrained length determinant
// (X.691 10.9.3.5-10.9.3.8). Fragmentation (n >= 16384) is not supported.
func (w *Writer) Length(n int) {
	w.Align()
	switch {
	case n < 0:
		w.fail("negative length")
	case n < 128:
		w.Bits(uint64(n), 8)
	case n < 16384:
		w.Bits(uint64(0x8000|n), 16)
	default:
		w.fail("length %d needs fragmentation", n)
	}
}

// SizeLength encodes a length determinant under SIZE(lb..ub); ub<0 means no upper bound.
func (w *Writer) SizeLength(n, lb, ub int) {
	if ub >= 0 && ub < 65536 {
		if n < lb || n > ub {
			w.fail("size %d outside %d..%d", n, lb, ub)
			return
		}
		w.ConstrainedWhole(int64(n), int64(lb), int64(ub))
		return
	}
	if n < lb {
		w.fail("size %d below %d", n, lb)
		return
	}
	w.Length(n)
}

// Integer encodes INTEGER (lb..ub) optionally with extension marker; only
// root values are supported.
func (w *Writer) Integer(v, lb, ub int64, ext bool) {
	if ext {
		w.Bits(0, 1)
	}
	w.ConstrainedWhole(v, lb, ub)
}

// Enum encodes ENUMERATED with n root values.
func (w *Writer) Enum(v, n int, ext bool) {
	if ext {
		w.Bits(0, 1)
	}
	w.ConstrainedWhole(int64(v), 0, int64(n-1))
}

// Choice encodes the index of a CHOICE with n root alternatives.
func (w *Writer) Choice(idx, n int, ext bool) {
	if ext {
		w.Bits(0, 1)
	}
	w.ConstrainedWhole(int64(idx), 0, int64(n-1))
}

// OctetString encodes OCTET STRING (SIZE(lb..ub)); ub<0 = unbounded.
func (w *Writer) OctetString(b []byte, lb, ub int, ext bool) {
	if ext {
		w.Bits(0, 1)
	}
	n := len(b)
	if ub >= 0 && lb == ub && ub < 65536 {
		if n != lb {
			w.fail("octet string size %d != %d", n, lb)
			return
		}
		if n > 2 {
			w.Align()
		}
		w.Octets(b)
		return
	}
	if (ub < 0 || ub >= 65536) && n >= 16384 && n >= lb {
		w.fragmented(b)
		return
	}
	w.SizeLength(n, lb, ub)
	if n > 0 {
		w.Align()
	}
	w.Octets(b)
}

// BitString encodes BIT STRING (SIZE(lb..ub)) of nbits bits taken from b (msb first).
func (w *Writer) BitString(b []byte, nbits, lb, ub int, ext bool) {
	if ext {
		w.Bits(0, 1)
	}
	if len(b)*8 < nbits {
		w.fail("bit string has %d octets for %d bits", len(b), nbits)
		return
	}
	put := func() {
		for i := 0; i < nbits; i++ {
			w.Bits(uint64(b[i/8]>>(7-uint(i%8)))&1, 1)
		}
	}
	if ub >= 0 && lb == ub && ub < 65536 {
		if nbits != lb {
			w.fail("bit string size %d != %d", nbits, lb)
			return
		}
		if nbits > 16 {
			w.Align()
		}
		put()
		return
	}
	w.SizeLength(nbits, lb, ub)
	if nbits > 0 {
		w.Align()
	}
	put()
}

// PrintableString encodes PrintableString (SIZE(lb..ub)) in the aligned variant
// (8 bits per character).
func (w *Writer) PrintableString(s string, lb, ub int, ext bool) {
	if ext {
		w.Bits(0, 1)
	}
	for i := 0; i < len(s); i++ {
		if !printable(s[i]) {
			w.fail("character %q is not in PrintableString", s[i])
			return
		}
	}
	w.SizeLength(len(s), lb, ub)
	if ub < 0 || ub*8 > 16 {
		if len(s) > 0 {
			w.Align()
		}
	}
	w.Octets([]byte(s))
}

func printable(c byte) bool {
	switch {
	case c >= 'A' && c <= 'Z', c >= 'a' && c <= 'z', c >= '0' && c <= '9':
		return true
	}
	switch c {
	case ' ', '\'', '(', ')', '+', ',', '-', '.', '/', ':', '=', '?':
		return true
	}
	return false
}

// OpenType wraps a complete encoding as an open type value.
func (w *Writer) OpenType(content []byte) {
	if len(content) == 0 {
		content = []byte{0}
	}
	w.fragmented(content)
}

// fragmented writes an unconstrained length determinant followed by the octets; from 16384 octets on
// in fragments of m x 16K octets (m = 4 while at least 64K remain, else as many as fit), each
// preceded by the octet 11mmmmmm, and a final ordinary length (possibly 0) for the rest (X.691 10.9.3.8).
func (w *Writer) fragmented(b []byte) {
	for len(b) >= 16384 {
		m := len(b) / 16384
		if m > 4 {
			m = 4
		}
		w.Align()
		w.Bits(uint64(0xC0|m), 8)
		w.Octets(b[:m*16384])
		b = b[m*16384:]
	}
	w.Length(len(b))
	w.Octets(b)
}

var ErrTrailing = errors.New("trailing data")
