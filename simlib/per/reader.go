package per

import "fmt"

// Reader is a strict aligned-PER decoder: padding bits must be zero, every
// value must be in range and lengths must be in their minimal form.
type Reader struct {
	buf []byte
	pos int // bit position
	Err error
}

func NewReader(b []byte) *Reader { return &Reader{buf: b} }

func (r *Reader) fail(format string, a ...interface{}) {
	if r.Err == nil {
		r.Err = fmt.Errorf("at bit %d: %s", r.pos, fmt.Sprintf(format, a...))
	}
}

func (r *Reader) Failf(format string, a ...interface{}) { r.fail(format, a...) }

func (r *Reader) Bits(n int) uint64 {
	if r.Err != nil {
		return 0
	}
	if r.pos+n > len(r.buf)*8 {
		r.fail("need %d bits, %d left", n, len(r.buf)*8-r.pos)
		return 0
	}
	var v uint64
	for i := 0; i < n; i++ {
		v = v<<1 | uint64(r.buf[r.pos/8]>>(7-uint(r.pos%8)))&1
		r.pos++
	}
	return v
}

func (r *Reader) Bool() bool { return r.Bits(1) == 1 }

func (r *Reader) Align() {
	for r.Err == nil && r.pos%8 != 0 {
		if r.Bits(1) != 0 {
			r.fail("non-zero padding bit")
		}
	}
}

func (r *Reader) Octets(n int) []byte {
	if r.Err != nil {
		return nil
	}
	if n < 0 || r.pos+8*n > len(r.buf)*8 {
		r.fail("need %d octets, %d bits left", n, len(r.buf)*8-r.pos)
		return nil
	}
	out := make([]byte, n)
	if r.pos%8 == 0 {
		copy(out, r.buf[r.pos/8:])
		r.pos += 8 * n
		return out
	}
	for i := range out {
		out[i] = byte(r.Bits(8))
	}
	return out
}

// End checks that only zero padding up to the end of the last octet remains.
func (r *Reader) End() error {
	if r.Err != nil {
		return r.Err
	}
	if r.pos == 0 && len(r.buf) == 1 && r.buf[0] == 0 {
		return nil
	}
	r.Align()
	if r.Err != nil {
		return r.Err
	}
	if r.pos != len(r.buf)*8 {
		return fmt.Errorf("%d trailing octets", len(r.buf)-r.pos/8)
	}
	return nil
}

func (r *Reader) ConstrainedWhole(lb, ub int64) int64 {
	rng := uint64(ub-lb) + 1
	var off uint64
	switch {
	case rng == 1:
		return lb
	case rng <= 255:
		off = r.Bits(bitsFor(rng))
	case rng == 256:
		r.Align()
		off = r.Bits(8)
	case rng <= 65536:
		r.Align()
		off = r.Bits(16)
	default:
		maxOct := octetsFor(uint64(ub - lb))
		n := int(r.ConstrainedWhole(1, int64(maxOct)))
		r.Align()
		off = r.Bits(8 * n)
		if r.Err == nil && n > 1 && off>>(8*uint(n-1)) == 0 {
			r.fail("integer not in minimal octets")
		}
	}
	if r.Err == nil && off > uint64(ub-lb) {
		r.fail("value offset %d exceeds range %d..%d", off, lb, ub)
	}
	return lb + int64(off)
}

func (r *Reader) Length() int {
	r.Align()
	b := r.Bits(8)
	switch {
	case b&0x80 == 0:
		return int(b)
	case b&0xc0 == 0x80:
		n := int(b&0x3f)<<8 | int(r.Bits(8))
		if r.Err == nil && n < 128 {
			r.fail("length %d not in minimal form", n)
		}
		return n
	default:
		r.fail("fragmented length not supported")
		return 0
	}
}

func (r *Reader) SizeLength(lb, ub int) int {
	if ub >= 0 && ub < 65536 {
		return int(r.ConstrainedWhole(int64(lb), int64(ub)))
	}
	n := r.Length()
	if r.Err == nil && n < lb {
		r.fail("size %d below %d", n, lb)
	}
	return n
}

func (r *Reader) extBit(ext bool, what string) {
	if ext && r.Bits(1) == 1 {
		r.fail("%s: extension additions not supported by the reference", what)
	}
}

func (r *Reader) Integer(lb, ub int64, ext bool) int64 {
	r.extBit(ext, "INTEGER")
	return r.ConstrainedWhole(lb, ub)
}

func (r *Reader) Enum(n int, ext bool) int {
	r.extBit(ext, "ENUMERATED")
	return int(r.ConstrainedWhole(0, int64(n-1)))
}

func (r *Reader) Choice(n int, ext bool) int {
	r.extBit(ext, "CHOICE")
	return int(r.ConstrainedWhole(0, int64(n-1)))
}

func (r *Reader) OctetString(lb, ub int, ext bool) []byte {
	r.extBit(ext, "OCTET STRING")
	if ub >= 0 && lb == ub && ub < 65536 {
		if lb > 2 {
			r.Align()
		}
		return r.Octets(lb)
	}
	n := r.SizeLength(lb, ub)
	if n > 0 {
		r.Align()
	}
	return r.Octets(n)
}

// BitString returns the bits left-aligned in octets plus the bit count.
func (r *Reader) BitString(lb, ub int, ext bool) ([]byte, int) {
	r.extBit(ext, "BIT STRING")
	var n int
	if ub >= 0 && lb == ub && ub < 65536 {
		n = lb
		if n > 16 {
			r.Align()
		}
	} else {
		n = r.SizeLength(lb, ub)
		if n > 0 {
			r.Align()
		}
	}
	if r.Err != nil {
		return nil, 0
	}
	out := make([]byte, (n+7)/8)
	for i := 0; i < n; i++ {
		if r.Bits(1) == 1 {
			out[i/8] |= 0x80 >> uint(i%8)
		}
	}
	return out, n
}

func (r *Reader) PrintableString(lb, ub int, ext bool) string {
	var n int
	if ext && r.Bits(1) == 1 {
		// size outside the extension root: a general length determinant, then the characters, octet
		// aligned (X.691 27.5.3 / 30.6); a size inside the root must not be sent this way
		n = r.Length()
		if r.Err == nil && ub >= 0 && n >= lb && n <= ub {
			r.fail("PrintableString: size %d lies in the root %d..%d but the extension bit is set", n, lb, ub)
		}
		if n > 0 {
			r.Align()
		}
	} else {
		n = r.SizeLength(lb, ub)
		if ub < 0 || ub*8 > 16 {
			if n > 0 {
				r.Align()
			}
		}
	}
	b := r.Octets(n)
	for _, c := range b {
		if !printable(c) {
			r.fail("character %q is not in PrintableString", c)
		}
	}
	return string(b)
}

// OpenType returns the content octets of an open type value.
func (r *Reader) OpenType() []byte {
	n := r.Length()
	if r.Err == nil && n == 0 {
		r.fail("open type of zero length")
	}
	return r.Octets(n)
}

// Remaining returns the number of unread bits.
func (r *Reader) Remaining() int { return len(r.buf)*8 - r.pos }

func (r *Reader) Pos() int { return r.pos }
