// ps is the procedure-level rig: a small driver that calls the repository's
// procedures (ConnectToAmf, ManageNGSetup, RegisterUE, EstablishPDU) over the
// simulated association, so that return values and the UE context can be
// compared with the reference core's state, and so that algorithm pairs that
// main() hard-codes away can be exercised.
package main

import (
	"encoding/hex"
	"fmt"
	"os"

	"free5gclib/nas/nasConvert"
	"free5gclib/openapi/models"
	"stgutg"
	"tglib"

	"verifsim/world"
)

func num(m map[string]interface{}, k string, def int) int {
	if v, ok := m[k].(float64); ok {
		return int(v)
	}
	return def
}

func main() {
	w := world.Init()
	s := w.S
	c := s.Config
	gnb, _ := hex.DecodeString(c.GnbIDHex)
	mode, _ := s.Rig["mode"].(string)
	nea, nia := uint8(num(s.Rig, "nea", 0)), uint8(num(s.Rig, "nia", 2))
	supi := "imsi-" + c.IMSI

	if mode == "probe" {
		// direct state probes of the key derivation: a sequence of derivations in one process (different
		// subscribers one after the other), for algorithm identifiers that cannot complete a registration too
		probes, _ := s.Rig["probes"].([]interface{})
		var prev *tglib.RanUeContext
		for i, pv := range probes {
			p := pv.(map[string]interface{})
			str := func(k string) string { v, _ := p[k].(string); return v }
			var ue *tglib.RanUeContext
			if same, _ := p["same_ue"].(bool); same && prev != nil {
				// re-authentication: the network runs AKA again for the UE it authenticated before
				ue = prev
			} else {
				ue = tglib.NewRanUeContext("imsi-"+str("imsi"), 1, uint8(num(p, "nea", 0)), uint8(num(p, "nia", 2)))
				ue.AuthenticationSubs = tglib.GetAuthSubscription(str("k"), str("opc"), str("op"))
			}
			prev = ue
			rnd, _ := hex.DecodeString(str("rand"))
			autnB, _ := hex.DecodeString(str("autn"))
			var autn [16]byte
			copy(autn[:], autnB)
			mcc, mnc := str("mcc"), str("mnc")
			snName := "5G:mnc" + mnc + ".mcc" + mcc + ".3gppnetwork.org"
			if len(mnc) == 2 {
				snName = "5G:mnc0" + mnc + ".mcc" + mcc + ".3gppnetwork.org"
			}
			res := ue.DeriveRESstarAndSetKey(ue.AuthenticationSubs, autn, rnd, snName, mnc, mcc)
			info := map[string]interface{}{"res_star": hex.EncodeToString(res), "kamf": hex.EncodeToString(ue.Kamf),
				"knasint": hex.EncodeToString(ue.KnasInt[:]), "knasenc": hex.EncodeToString(ue.KnasEnc[:])}
			if k2 := str("kamf2"); len(k2) == 64 && len(ue.Kamf) == 32 {
				// the AMF hands the UE a new K_AMF (horizontal derivation, N2 handover): the context's key
				// buffer is refreshed in place and the algorithm keys are derived again
				nb, _ := hex.DecodeString(k2)
				copy(ue.Kamf, nb)
				ue.DerivateAlgKey()
				info["knasint2"], info["knasenc2"] = hex.EncodeToString(ue.KnasInt[:]), hex.EncodeToString(ue.KnasEnc[:])
			}
			// the library's own PLMN conversion for this serving network and for its sibling with the
			// other MNC length (MNC ab <-> 0ab), in one process
			sib := "0" + mnc
			if len(mnc) == 3 {
				sib = mnc[1:]
			}
			info["plmn_conv"] = hex.EncodeToString(nasConvert.PlmnIDToNas(models.PlmnId{Mcc: mcc, Mnc: mnc}))
			info["plmn_conv_sibling"] = hex.EncodeToString(nasConvert.PlmnIDToNas(models.PlmnId{Mcc: mcc, Mnc: sib}))
			w.Log(world.Event{Ev: "ctx", I: i, UE: 0, Info: info})
		}
		os.Exit(0)
	}

	if mode == "direct" {
		// direct calls of the two extraction functions on given byte strings (termination clause,
		// and accepts too large for the emulator's 2048-octet read buffer)
		ins, _ := s.Rig["inputs"].([]interface{})
		for i, in := range ins {
			m := in.(map[string]interface{})
			b, _ := hex.DecodeString(m["hex"].(string))
			fn, _ := m["fn"].(string)
			w.Log(world.Event{Ev: "case", I: i, UE: -1, Label: fn})
			func() {
				defer func() {
					if p := recover(); p != nil {
						w.Log(world.Event{Ev: "res", I: i, UE: -1, Label: fn, Err: fmt.Sprint(p)})
					}
				}()
				if fn == "nas" {
					ip := stgutg.DecodePDUSessionNASPDU(b)
					w.Log(world.Event{Ev: "res", I: i, UE: -1, Label: fn, Info: map[string]interface{}{"ue_ip": ip.String(), "len": len(ip)}})
				} else {
					teid, upf := stgutg.DecodePDUSessionResourceSetupRequestTransfer(b)
					w.Log(world.Event{Ev: "res", I: i, UE: -1, Label: fn, Info: map[string]interface{}{"teid": teid, "upf_ip": upf.String(), "len": len(upf)}})
				}
			}()
		}
		w.Log(world.Event{Ev: "done", UE: -1})
		os.Exit(0)
	}

	conn, err := tglib.ConnectToAmf(c.AmfNgapIP, c.StgNgapIP, c.AmfNgapPort, c.StgNgapPort)
	stgutg.ManageError("Error in connection to AMF", err)
	stgutg.ManageNGSetup(conn, string(gnb), c.IMSI, c.MNC, uint64(c.GnbBitLength), c.GnbName)

	if mode == "resetup" {
		// the interface is set up, a subscriber registers and leaves, the interface is set up again for
		// another PLMN and a second subscriber registers: nothing of the first setup may survive
		rp := s.ResetupPLMN
		mcc2, mnc2 := rp[:3], rp[3:]
		u1 := tglib.NewRanUeContext("imsi-"+s.Subscribers[0], int64(num(s.Rig, "ran_id", 1)), nea, nia)
		u1.AuthenticationSubs = tglib.GetAuthSubscription(c.K, c.OPC, c.OP)
		u1, _, _ = stgutg.RegisterUE(u1, c.MNC, c.MCC, conn)
		if d, _ := s.Rig["dereg_first"].(bool); d {
			stgutg.DeregisterUE(u1, c.MNC, conn)
		}
		stgutg.ManageNGSetup(conn, string(gnb), rp+"0000000001"[:10-len(mnc2)+2], mnc2, uint64(c.GnbBitLength), c.GnbName)
		u2 := tglib.NewRanUeContext("imsi-"+s.Subscribers[1], int64(num(s.Rig, "ran_id", 1)+1), nea, nia)
		u2.AuthenticationSubs = tglib.GetAuthSubscription(c.K, c.OPC, c.OP)
		u2, _, _ = stgutg.RegisterUE(u2, mnc2, mcc2, conn)
		w.Log(world.Event{Ev: "ctx", I: 1, UE: 1, Info: map[string]interface{}{"supi": u2.Supi}})
		stgutg.DeregisterUE(u2, mnc2, conn)
		w.Summary(true)
		fmt.Println(">> rig finished")
		conn.Close()
		os.Exit(0)
	}

	if mode == "rereg" {
		// one UE context registers, deregisters and registers again over the same association (with
		// other algorithms the second time when the scenario says so): what the context carries from
		// its first life must not leak into the second
		var u *tglib.RanUeContext
		if via, _ := s.Rig["via_create_ue"].(bool); via {
			u = stgutg.CreateUE(c.IMSI, 0, c.K, c.OPC, c.OP)
		} else {
			u = tglib.NewRanUeContext(supi, int64(num(s.Rig, "ran_id", 1)), nea, nia)
			u.AuthenticationSubs = tglib.GetAuthSubscription(c.K, c.OPC, c.OP)
		}
		{
			// what a context advertises for every pair of algorithms it can be set to (the registrations
			// below only use the pairs the emulator's NAS layer implements)
			tab := map[string]interface{}{}
			for a := 0; a < 4; a++ {
				for b := 0; b < 4; b++ {
					x := tglib.NewRanUeContext(supi, 1, uint8(a), uint8(b))
					tab[fmt.Sprintf("%d/%d", a, b)] = hex.EncodeToString(x.GetUESecurityCapability().Buffer)
				}
			}
			w.Log(world.Event{Ev: "captable", Info: tab})
		}
		logCtx := func(i int) {
			w.Log(world.Event{Ev: "ctx", I: i, UE: i, Info: map[string]interface{}{"supi": u.Supi, "ran_ue_ngap_id": u.RanUeNgapId, "amf_ue_ngap_id": u.AmfUeNgapId,
				"kamf": hex.EncodeToString(u.Kamf), "knasint": hex.EncodeToString(u.KnasInt[:]), "knasenc": hex.EncodeToString(u.KnasEnc[:]), "ul_count": u.ULCount.Get(), "dl_count": u.DLCount.Get()}})
		}
		u, _, _ = stgutg.RegisterUE(u, c.MNC, c.MCC, conn)
		logCtx(0)
		stgutg.DeregisterUE(u, c.MNC, conn)
		if n2, ok := s.Rig["nea2"].(float64); ok {
			u.CipheringAlg = uint8(n2)
		}
		if n2, ok := s.Rig["nia2"].(float64); ok {
			u.IntegrityAlg = uint8(n2)
		}
		u, _, _ = stgutg.RegisterUE(u, c.MNC, c.MCC, conn)
		logCtx(1)
		w.Summary(true)
		fmt.Println(">> rig finished")
		conn.Close()
		os.Exit(0)
	}

	if mode == "multi" {
		// Several subscribers - explicit SUPIs, possibly roamers from another PLMN, possibly with
		// their own credentials - share one process and one association: all UE contexts are created
		// first (in create_order), then the UEs register one after the other (in list order), then
		// some deregister. What UE creation returned is logged before anything else happens.
		dereg, _ := s.Rig["dereg"].([]interface{})
		order, _ := s.Rig["create_order"].([]interface{})
		viaCreate, _ := s.Rig["via_create_ue"].(bool)
		n := len(s.Subscribers)
		cred := func(i int) (string, string, string) {
			if i < len(s.SubCreds) && s.SubCreds[i].K != "" {
				return s.SubCreds[i].K, s.SubCreds[i].OPC, s.SubCreds[i].OP
			}
			return c.K, c.OPC, c.OP
		}
		ues := make([]*tglib.RanUeContext, n)
		for step := 0; step < n; step++ {
			i := step
			if step < len(order) {
				i = int(order[step].(float64))
			}
			if i < 0 || i >= n || ues[i] != nil {
				continue
			}
			k, opc, op := cred(i)
			if viaCreate {
				ues[i] = stgutg.CreateUE(s.Subscribers[i], 0, k, opc, op)
			} else {
				ues[i] = tglib.NewRanUeContext("imsi-"+s.Subscribers[i], int64(num(s.Rig, "ran_id", 1)+i), nea, nia)
				ues[i].AuthenticationSubs = tglib.GetAuthSubscription(k, opc, op)
			}
		}
		for i, u := range ues {
			if u == nil {
				k, opc, op := cred(i)
				u = stgutg.CreateUE(s.Subscribers[i], 0, k, opc, op)
				ues[i] = u
			}
			a := u.AuthenticationSubs
			info := map[string]interface{}{"supi": u.Supi, "ran_ue_ngap_id": u.RanUeNgapId, "nea": u.CipheringAlg, "nia": u.IntegrityAlg}
			if a.PermanentKey != nil {
				info["k"] = a.PermanentKey.PermanentKeyValue
			}
			if a.Opc != nil {
				info["opc"] = a.Opc.OpcValue
			}
			if a.Milenage != nil && a.Milenage.Op != nil {
				info["op"] = a.Milenage.Op.OpValue
			}
			w.Log(world.Event{Ev: "created", I: i, UE: i, Info: info})
		}
		for i, u := range ues {
			u, _, _ = stgutg.RegisterUE(u, c.MNC, c.MCC, conn)
			ues[i] = u
			w.Log(world.Event{Ev: "ctx", I: i, UE: i, Info: map[string]interface{}{"supi": u.Supi, "ran_ue_ngap_id": u.RanUeNgapId, "amf_ue_ngap_id": u.AmfUeNgapId,
				"kamf": hex.EncodeToString(u.Kamf), "knasint": hex.EncodeToString(u.KnasInt[:]), "knasenc": hex.EncodeToString(u.KnasEnc[:]), "ul_count": u.ULCount.Get(), "dl_count": u.DLCount.Get()}})
		}
		w.Summary(true)
		for _, d := range dereg {
			if i := int(d.(float64)); i >= 0 && i < len(ues) {
				stgutg.DeregisterUE(ues[i], c.MNC, conn)
			}
		}
		w.Summary(true)
		fmt.Println(">> rig finished")
		conn.Close()
		os.Exit(0)
	}

	ue := tglib.NewRanUeContext(supi, int64(num(s.Rig, "ran_id", 1)), nea, nia)
	ue.AuthenticationSubs = tglib.GetAuthSubscription(c.K, c.OPC, c.OP)
	ue, _, _ = stgutg.RegisterUE(ue, c.MNC, c.MCC, conn)
	w.Log(world.Event{Ev: "ctx", UE: 0, Info: map[string]interface{}{"kamf": hex.EncodeToString(ue.Kamf),
		"knasint": hex.EncodeToString(ue.KnasInt[:]), "knasenc": hex.EncodeToString(ue.KnasEnc[:]),
		"ul_count": ue.ULCount.Get(), "dl_count": ue.DLCount.Get(), "amf_ue_ngap_id": ue.AmfUeNgapId, "ran_ue_ngap_id": ue.RanUeNgapId}})
	w.Summary(true)
	if mode == "establish" {
		ip, teid, upf := stgutg.EstablishPDU(int32(c.SST), c.SD, ue, conn, c.GnbGtpIP)
		w.Log(world.Event{Ev: "ret", UE: 0, Info: map[string]interface{}{"ue_ip": ip.String(), "ue_ip_len": len(ip), "teid": teid, "upf_ip": upf.String(), "upf_ip_len": len(upf)}})
		w.Summary(true)
		if second, _ := s.Rig["second_ue"].(bool); second {
			// a second subscriber registers and establishes its session over the same association; the
			// caller still holds what was reported for the first one (as the traffic mode does)
			ue2 := stgutg.CreateUE(c.IMSI, 1, c.K, c.OPC, c.OP)
			ue2, _, _ = stgutg.RegisterUE(ue2, c.MNC, c.MCC, conn)
			ip2, teid2, upf2 := stgutg.EstablishPDU(int32(c.SST), c.SD, ue2, conn, c.GnbGtpIP)
			w.Log(world.Event{Ev: "ret2", UE: 1, Info: map[string]interface{}{"ue_ip": ip2.String(), "ue_ip_len": len(ip2), "teid": teid2, "upf_ip": upf2.String(), "upf_ip_len": len(upf2)}})
			w.Log(world.Event{Ev: "ret-later", UE: 0, Info: map[string]interface{}{"ue_ip": ip.String(), "ue_ip_len": len(ip), "teid": teid, "upf_ip": upf.String(), "upf_ip_len": len(upf)}})
			w.Summary(true)
		}
		if then, _ := s.Rig["then_release"].(bool); then {
			// the caller keeps what was reported while the conversation goes on (as the traffic mode
			// keeps its client list): release the session and deregister, then look again
			stgutg.ReleasePDU(int32(c.SST), c.SD, ue, conn)
			stgutg.DeregisterUE(ue, c.MNC, conn)
			w.Log(world.Event{Ev: "ret-later", UE: 0, Info: map[string]interface{}{"ue_ip": ip.String(), "ue_ip_len": len(ip), "teid": teid, "upf_ip": upf.String(), "upf_ip_len": len(upf)}})
		}
	}
	fmt.Println(">> rig finished")
	conn.Close()
	os.Exit(0)
}
