// cc is the controlled-concurrency rig (C20). It links the instrumented copy
// of the repository's libraries: G tasks, each with its own UE context and
// messages, run library operations while the seeded scheduler of verifsim/simrt
// decides at every yield point who continues. Oracle: every result equals the
// result of the same operation in a sequential pre-pass, no two overlapping
// operations touch the same package-level variable with a write, no panic.
package main

import (
	"encoding/hex"
	"fmt"
	"os"

	"free5gclib/milenage"
	"free5gclib/nas"
	"free5gclib/nas/nasMessage"
	"free5gclib/nas/nasTestpacket"
	"free5gclib/nas/nasType"
	"free5gclib/nas/security"
	"free5gclib/ngap"
	"free5gclib/openapi/models"
	"stgutg"
	"tglib"

	"verifsim/kernel"
	"verifsim/ref/crypto"
	refnas "verifsim/ref/nas"
	"verifsim/simrt"
	"verifsim/world"
)

type hmap = map[string]interface{}

func num(m hmap, k string, def int) int {
	if v, ok := m[k].(float64); ok {
		return int(v)
	}
	return def
}

var opNames = []string{"ngap.Encoder", "ngap.Decoder", "nas.plain-encode", "nas.plain-decode", "NASEncode", "NASDecode", "DeriveRESstarAndSetKey", "NASEncrypt", "NASMacCalculate", "milenage"}

type taskState struct {
	seed   uint64
	ue     *tglib.RanUeContext
	nea    uint8
	nia    uint8
	ops    []int
	opSeed []uint64
}

func key16(b []byte) (k [16]byte) { copy(k[:], b); return }

func newTask(seed uint64, nops int) *taskState {
	r := kernel.New(seed)
	t := &taskState{seed: seed}
	t.nea, t.nia = uint8(r.Intn(3)), uint8(1+r.Intn(2))
	supi := "imsi-00101" + r.Digits(10)
	t.ue = tglib.NewRanUeContext(supi, int64(r.Intn(10000)), t.nea, t.nia)
	t.ue.KnasEnc, t.ue.KnasInt = key16(r.Bytes(16)), key16(r.Bytes(16))
	t.ue.AmfUeNgapId = int64(r.Intn(1 << 30))
	t.ue.AuthenticationSubs = tglib.GetAuthSubscription(hex.EncodeToString(r.Bytes(16)), hex.EncodeToString(r.Bytes(16)), "")
	if rc := kernel.New(seed).Sub("cred"); rc.Bool() { // subscribers provisioned with OP only (OPc derived on use)
		t.ue.AuthenticationSubs = tglib.GetAuthSubscription(hex.EncodeToString(rc.Bytes(16)), "", hex.EncodeToString(rc.Bytes(16)))
	}
	for i := 0; i < nops; i++ {
		t.ops = append(t.ops, r.Intn(len(opNames)))
		t.opSeed = append(t.opSeed, r.Uint64())
	}
	return t
}

func plainUL(r *kernel.Rand) []byte {
	switch r.Intn(4) {
	case 0:
		return nasTestpacket.GetRegistrationComplete(nil)
	case 1:
		return nasTestpacket.GetSecurityModeComplete(r.Bytes(r.Pick(r.Range(0, 40), r.Range(0, 40), r.Range(0, 40), r.Range(240, 300), r.Range(500, 1000), r.Range(0, 40), r.Range(4090, 6500))))
	case 2:
		sn := models.Snssai{Sst: 1, Sd: "010203"}
		if rs := r.Sub("snssai"); rs.Chance(2, 3) { // UEs ask for different slices, with and without SD
			sn = models.Snssai{Sst: int32(1 + rs.Intn(255)), Sd: []string{"", hex.EncodeToString(rs.Bytes(3)), hex.EncodeToString(rs.Bytes(3))}[rs.Intn(3)]}
		}
		return nasTestpacket.GetUlNasTransport_PduSessionEstablishmentRequest(uint8(1+r.Intn(15)), nasMessage.ULNASTransportRequestTypeInitialRequest, "internet", &sn)
	}
	return nasTestpacket.GetAuthenticationResponse(r.Bytes(16), "")
}

// runOp executes operation k of the task and returns a printable result.
func (t *taskState) runOp(k int) (res string) {
	defer func() {
		if p := recover(); p != nil {
			res = fmt.Sprintf("PANIC: %v", p)
		}
	}()
	r := kernel.New(t.opSeed[k])
	ue := t.ue
	switch t.ops[k] {
	case 0:
		var b []byte
		var err error
		switch r.Intn(5) {
		case 0:
			b, err = tglib.GetUplinkNASTransport(ue.AmfUeNgapId, ue.RanUeNgapId, r.Bytes(r.Range(3, 60)))
		case 1:
			b, err = tglib.GetInitialUEMessage(ue.RanUeNgapId, r.Bytes(r.Range(3, 60)), "")
		case 2:
			// gNBs (and so tasks) differ in their N3 address
			b, err = tglib.GetPDUSessionResourceSetupResponse(ue.AmfUeNgapId, ue.RanUeNgapId, int64(1+r.Intn(15)), fmt.Sprintf("10.%d.%d.%d", t.seed%3, t.seed>>8%4, 1+t.seed>>16%5))
		case 3:
			b, err = tglib.GetInitialContextSetupResponse(ue.AmfUeNgapId, ue.RanUeNgapId)
		default:
			b, err = tglib.GetUEContextReleaseComplete(ue.AmfUeNgapId, ue.RanUeNgapId, nil)
		}
		return fmt.Sprintf("%x %v", b, err)
	case 1:
		enc, _ := tglib.GetUplinkNASTransport(int64(r.Intn(1<<30)), int64(r.Intn(1<<30)), r.Bytes(r.Range(3, 60)))
		switch r.Intn(6) { // error paths run concurrently too: a truncated or damaged message
		case 0:
			enc = enc[:r.Range(1, len(enc)-1)]
		case 1:
			enc[r.Intn(len(enc))] ^= 1 << uint(r.Intn(8))
		}
		pdu, err := ngap.Decoder(enc)
		if err != nil {
			return "ERR " + err.Error()
		}
		b, err := ngap.Encoder(*pdu)
		return fmt.Sprintf("%x %v", b, err)
	case 2:
		id := nasType.MobileIdentity5GS{Buffer: append([]byte{0x01, 0x00, 0xf1, 0x10, 0xf0, 0xff, 0x00, 0x00}, r.Bytes(5)...)}
		id.Len = uint16(len(id.Buffer))
		if rs := r.Sub("suci"); rs.Chance(1, 2) { // the emulator's own SUCI builder; tasks differ in PLMN and MNC length
			mncLen := 2 + int(t.seed>>5%2)
			imsi := kernel.New(t.seed).Sub("imsi").Digits(3+mncLen) + rs.Digits(rs.Range(1, 12-mncLen))
			id = *stgutg.EncodeSuci([]byte(imsi), mncLen)
		}
		return hex.EncodeToString(nasTestpacket.GetRegistrationRequest(nasMessage.RegistrationType5GSInitialRegistration, id, nil, ue.GetUESecurityCapability(), nil, nil, nil))
	case 3:
		p := plainUL(r)
		if r.Intn(6) == 0 && len(p) > 3 {
			p = p[:r.Range(2, len(p)-1)] // a truncated message: the decoder's error path
		}
		m := nas.NewMessage()
		cp := append([]byte{}, p...)
		if err := m.PlainNasDecode(&cp); err != nil {
			return "ERR " + err.Error()
		}
		b, err := m.PlainNasEncode()
		return fmt.Sprintf("%x %v", b, err)
	case 4:
		b, err := tglib.EncodeNasPduWithSecurity(ue, plainUL(r), uint8(r.Pick(1, 2, 2, 2)), true, false)
		return fmt.Sprintf("%x %v ul=%d", b, err, ue.ULCount.Get())
	case 5:
		plain := refnas.DeregistrationAccept()
		if r.Bool() {
			psi := byte(5)
			plain = refnas.DLNASTransport(r.Bytes(r.Range(1, 40)), &psi, nil)
		}
		cnt := (ue.DLCount.Get() + 1) & 0xffffff
		inner, _ := crypto.Cipher(t.nea, ue.KnasEnc[:], cnt, 1, 1, plain)
		mac, _ := crypto.MAC(t.nia, ue.KnasInt[:], cnt, 1, 1, append([]byte{byte(cnt)}, inner...))
		pkg := refnas.Protect(2, mac, byte(cnt), inner)
		m, err := tglib.NASDecode(ue, 2, pkg)
		if err != nil || m == nil {
			return fmt.Sprintf("ERR %v", err)
		}
		b, err := m.PlainNasEncode()
		return fmt.Sprintf("%x %v dl=%d", b, err, ue.DLCount.Get())
	case 6:
		var autn [16]byte
		copy(autn[:], r.Bytes(16))
		res := ue.DeriveRESstarAndSetKey(ue.AuthenticationSubs, autn, r.Bytes(16), "5G:mnc001.mcc001.3gppnetwork.org", "01", "001")
		return fmt.Sprintf("%x %x %x %x", res, ue.Kamf, ue.KnasInt, ue.KnasEnc)
	case 7:
		p := r.Bytes(r.Pick(r.Range(1, 70), r.Range(1, 70), r.Range(1, 70), r.Range(250, 270), r.Range(500, 1100), r.Range(1, 70), r.Range(16500, 33000)))
		err := security.NASEncrypt(uint8(r.Intn(3)), key16(r.Bytes(16)), uint32(r.Intn(1<<24)), 1, uint8(r.Intn(2)), p)
		return fmt.Sprintf("%x %v", p, err)
	case 9:
		// the home-environment side of the key derivation: the library's Milenage, per-task K/OP/RAND
		k, op, rnd, sqn, amf := r.Bytes(16), r.Bytes(16), r.Bytes(16), r.Bytes(6), r.Bytes(2)
		opc, err := milenage.GenerateOPC(k, op)
		if err != nil {
			return "ERR " + err.Error()
		}
		ma, ms := make([]byte, 8), make([]byte, 8)
		e1 := milenage.F1(opc, k, rnd, sqn, amf, ma, ms)
		res, ck, ik, ak, aks := make([]byte, 8), make([]byte, 16), make([]byte, 16), make([]byte, 6), make([]byte, 6)
		e2 := milenage.F2345(opc, k, rnd, res, ck, ik, ak, aks)
		autn, ik2, ck2, ak2, res2 := make([]byte, 16), make([]byte, 16), make([]byte, 16), make([]byte, 6), make([]byte, 8)
		rl := uint(8)
		milenage.MilenageGenerate(opc, amf, k, sqn, rnd, autn, ik2, ck2, ak2, res2, &rl)
		auts := make([]byte, 14)
		v := milenage.Milenage_check(opc, k, sqn, rnd, autn, ik2, ck2, res2, &rl, auts)
		return fmt.Sprintf("%x %x %x %v %x %x %x %x %x %v %x %d %x", opc, ma, ms, e1, res, ck, ik, ak, aks, e2, autn, v, auts)
	default:
		mac, err := security.NASMacCalculate(uint8(1+r.Intn(2)), key16(r.Bytes(16)), uint32(r.Intn(1<<24)), 1, uint8(r.Intn(2)), r.Bytes(r.Pick(r.Range(1, 70), r.Range(1, 70), r.Range(250, 270), r.Range(500, 1100))))
		return fmt.Sprintf("%x %v", mac, err)
	}
}

func main() {
	w := world.Init()
	rig := w.S.Rig
	g := num(rig, "tasks", 4)
	nops := num(rig, "ops", 3)
	base := kernel.New(w.S.Seed).Sub("cc-tasks")
	var seeds []uint64
	for i := 0; i < g; i++ {
		seeds = append(seeds, base.Uint64())
	}
	// sequential pass: the reference results ("as when used one call at a time"). In a "cold" run it
	// comes after the concurrent run, so that the tasks are the first users of the libraries in this
	// process: lazily initialised package state (memo tables, caches, once-flags) is then filled
	// under the scheduler's eyes instead of by the reference pass.
	cold, _ := rig["cold"].(bool)
	expected := make([][]string, g)
	sequential := func() {
		for i := 0; i < g; i++ {
			t := newTask(seeds[i], nops)
			for k := range t.ops {
				expected[i] = append(expected[i], t.runOp(k))
			}
		}
	}
	if !cold {
		sequential()
	}
	// controlled concurrent run
	tasks := make([]*taskState, g)
	got := make([][]string, g)
	var bodies []func(int)
	for i := 0; i < g; i++ {
		tasks[i] = newTask(seeds[i], nops)
		got[i] = make([]string, len(tasks[i].ops))
		bodies = append(bodies, func(id int) {
			t := tasks[id]
			for k := range t.ops {
				simrt.BeginOp(k)
				got[id][k] = t.runOp(k)
				simrt.EndOp()
				simrt.Yield(0)
			}
		})
	}
	res := simrt.Run(bodies, chooser(rig, w.S.Seed))
	if cold {
		sequential()
	}
	for _, c := range res.Conflicts {
		a, b := "read", "read"
		if c.WriteA {
			a = "write"
		}
		if c.WriteB {
			b = "write"
		}
		d := fmt.Sprintf("task %d (%s, %s) and task %d (%s, %s) touched %s while both operations were in progress, no common lock held (step %d)",
			c.TaskA, opNames[tasks[c.TaskA].ops[c.OpA]], a, c.TaskB, opNames[tasks[c.TaskB].ops[c.OpB]], b, c.Var, c.Step)
		w.Log(world.Event{Ev: "viol", UE: -1, Label: "cc.race@" + c.Var, Info: hmap{"rule": "cc.race", "site": c.Var, "detail": d}})
	}
	for i := 0; i < g; i++ {
		for k := range tasks[i].ops {
			if got[i][k] != expected[i][k] {
				name := opNames[tasks[i].ops[k]]
				d := fmt.Sprintf("task %d op %d (%s, NEA%d/NIA%d) gave %.80s under this interleaving, %.80s when run alone", i, k, name, tasks[i].nea, tasks[i].nia, got[i][k], expected[i][k])
				w.Log(world.Event{Ev: "viol", UE: -1, Label: "cc.result@" + name, Info: hmap{"rule": "cc.result", "site": name, "detail": d}})
			}
		}
	}
	for _, p := range res.Panics {
		w.Log(world.Event{Ev: "viol", UE: -1, Label: "cc.panic@task", Info: hmap{"rule": "cc.panic", "site": "task", "detail": p}})
	}
	var dec [][2]int
	for _, d := range res.Decisions {
		dec = append(dec, [2]int{d.Step, d.To})
	}
	w.Log(world.Event{Ev: "cc", UE: -1, Info: hmap{"steps": res.Steps, "switches": res.Switches, "switches_in_ops": res.SwitchesInOps, "sites": res.DistinctSites, "schedule": dec}})
	w.Log(world.Event{Ev: "done", UE: -1})
	os.Exit(0)
}

// chooser builds the scheduling policy: an explicit schedule (replay / shrinking) or a seeded one.
func chooser(rig hmap, seed uint64) simrt.Chooser {
	if sch, ok := rig["schedule"].([]interface{}); ok {
		at := map[int]int{}
		for _, e := range sch {
			p := e.([]interface{})
			at[int(p[0].(float64))] = int(p[1].(float64))
		}
		return func(step, cur int, runnable []int, atAccess bool) int {
			if to, ok := at[step]; ok {
				for _, r := range runnable {
					if r == to {
						return to
					}
				}
			}
			if cur >= 0 {
				return cur
			}
			return runnable[0]
		}
	}
	r := kernel.New(seed).Sub("sched")
	mode, _ := rig["mode"].(string)
	den := num(rig, "p_den", 20)
	switch mode {
	case "pct":
		// d change points at random steps of an estimated run length; otherwise run to completion in priority order
		d := num(rig, "d", 3)
		est := num(rig, "est_steps", 20000)
		points := map[int]bool{}
		for i := 0; i < d; i++ {
			points[r.Intn(est)] = true
		}
		return func(step, cur int, runnable []int, atAccess bool) int {
			if cur < 0 || points[step] {
				return runnable[r.Intn(len(runnable))]
			}
			return cur
		}
	case "access":
		// force a switch at shared accesses inside an operation, otherwise rarely
		return func(step, cur int, runnable []int, atAccess bool) int {
			if cur < 0 {
				return runnable[r.Intn(len(runnable))]
			}
			if atAccess && r.Chance(1, 3) || r.Chance(1, 400) {
				return runnable[r.Intn(len(runnable))]
			}
			return cur
		}
	}
	return func(step, cur int, runnable []int, atAccess bool) int {
		if cur < 0 || r.Chance(1, den) {
			return runnable[r.Intn(len(runnable))]
		}
		return cur
	}
}
