package main

import (
	"bytes"
	"encoding/hex"
	"fmt"

	"free5gclib/nas"
	"free5gclib/nas/nasMessage"
	"free5gclib/nas/nasTestpacket"
	"free5gclib/nas/nasType"
	"free5gclib/nas/security"
	"free5gclib/openapi/models"
	"tglib"

	"verifsim/kernel"
	"verifsim/ref/crypto"
	"verifsim/world"
)

// ulPlain builds one plain uplink 5GMM message with the repository's own constructors.
func ulPlain(kind string, l int, seed uint64) []byte {
	r := kernel.New(seed)
	switch kind {
	case "regcomplete":
		if l == 0 {
			return nasTestpacket.GetRegistrationComplete(nil)
		}
		return nasTestpacket.GetRegistrationComplete(r.Bytes(l))
	case "smc":
		return nasTestpacket.GetSecurityModeComplete(r.Bytes(l))
	case "authresp":
		return nasTestpacket.GetAuthenticationResponse(r.Bytes(16), "")
	case "dereg":
		id := nasType.MobileIdentity5GS{Buffer: append([]byte{0x01, 0x00, 0xf1, 0x10, 0xf0, 0xff, 0x00, 0x00}, r.Bytes(1+l%6)...)}
		id.Len = uint16(len(id.Buffer))
		return nasTestpacket.GetDeregistrationRequest(nasMessage.AccessType3GPP, 0, 0x04, id)
	case "est":
		sn := models.Snssai{Sst: int32(1 + r.Intn(3)), Sd: "010203"}
		return nasTestpacket.GetUlNasTransport_PduSessionEstablishmentRequest(uint8(1+r.Intn(15)), nasMessage.ULNASTransportRequestTypeInitialRequest, "internet"[:1+l%8], &sn)
	case "relreq":
		return nasTestpacket.GetUlNasTransport_PduSessionReleaseRequest(uint8(1 + r.Intn(15)))
	case "svc":
		return nasTestpacket.GetServiceRequest(nasMessage.ServiceTypeData)
	case "ulnas-rt": // UL NAS TRANSPORT ending in the request type IE (no S-NSSAI, no DNN): hand-built, TS 24.501 8.2.10
		psi := byte(1 + r.Intn(15))
		return []byte{0x7e, 0x00, 0x67, 0x01, 0x00, 0x04, 0x2e, psi, byte(1 + r.Intn(200)), 0xd1, 0x12, psi, 0x80 | byte(1+r.Intn(4))}
	case "ulnas-min": // UL NAS TRANSPORT with the PDU session id only
		psi := byte(1 + r.Intn(15))
		return []byte{0x7e, 0x00, 0x67, 0x01, 0x00, 0x04, 0x2e, psi, byte(1 + r.Intn(200)), 0xd4, 0x12, psi}
	case "gsm-est": // bare 5GSM messages (EPD 0x2e): the statement ranges over plain 5GMM and 5GSM messages
		return nasTestpacket.GetPduSessionEstablishmentRequest(uint8(1 + r.Intn(15)))
	case "gsm-rel":
		return nasTestpacket.GetPduSessionReleaseRequest(uint8(1 + r.Intn(15)))
	case "gsm-mod":
		return nasTestpacket.GetPduSessionModificationRequest(uint8(1 + r.Intn(15)))
	}
	return nasTestpacket.GetRegistrationComplete(nil)
}

func key16(s string) (k [16]byte) {
	b, _ := hex.DecodeString(s)
	copy(k[:], b)
	return
}

// reencode is the library's own plain decode + encode of the submitted bytes:
// the message "as the codec sees it", which isolates the security layer from the codec.
func reencode(plain []byte) ([]byte, error) {
	m := nas.NewMessage()
	cp := append([]byte{}, plain...)
	if err := m.PlainNasDecode(&cp); err != nil {
		return nil, err
	}
	return m.PlainNasEncode()
}

func rigUL() {
	for hi, hv := range list(w.S.Rig, "histories") {
		h := hv.(hmap)
		runULHistory(hi, h)
	}
}

func runULHistory(hi int, h hmap) {
	nea, nia := uint8(num(h, "nea", 0)), uint8(num(h, "nia", 2))
	ue := tglib.NewRanUeContext("imsi-001010000000001", 1, nea, nia)
	ue.KnasEnc, ue.KnasInt = key16(str(h, "kenc")), key16(str(h, "kint"))
	kenc, kint := ue.KnasEnc[:], ue.KnasInt[:]
	ue.ULCount.Set(uint16(num(h, "start_overflow", 0)), uint8(num(h, "start_sqn", 0)))
	ue.DLCount.Set(uint16(num(h, "dl_overflow", 3)), uint8(num(h, "dl_sqn", 7)))
	// model: the next uplink NAS COUNT
	next := uint32(num(h, "start_overflow", 0))<<8 | uint32(num(h, "start_sqn", 0))
	wraps256, wraps24 := 0, 0
	for oi, ov := range list(h, "ops") {
		op := ov.(hmap)
		site := fmt.Sprintf("%s/sht%d/NIA%d/NEA%d", str(op, "op"), num(op, "sht", 0), nia, nea)
		fail := func(rule, format string, a ...interface{}) {
			viol(hi, rule, site, fmt.Sprintf("op %d: ", oi)+fmt.Sprintf(format, a...), hmap{"op": oi})
		}
		switch str(op, "op") {
		case "rekey":
			ue.KnasEnc, ue.KnasInt = key16(str(op, "kenc")), key16(str(op, "kint"))
			kenc, kint = ue.KnasEnc[:], ue.KnasInt[:]
			continue
		case "bad-direct":
			// the protection entry point itself refuses: a message it cannot encode (neither a 5GMM nor a
			// 5GSM part), or an algorithm identifier it does not implement. Nothing was sent: the counters
			// stay, and the next message goes out with the COUNT this one would have had.
			ulB, dlB := ue.ULCount.Get(), ue.DLCount.Get()
			var err error
			switch num(op, "which", 0) % 3 {
			case 0:
				m := nas.NewMessage()
				m.SecurityHeader = nas.SecurityHeader{ProtocolDiscriminator: nasMessage.Epd5GSMobilityManagementMessage, SecurityHeaderType: uint8(num(op, "sht", 2))}
				_, err = tglib.NASEncode(ue, m, true, false)
			case 1:
				m := nas.NewMessage()
				cp := append([]byte{}, nasTestpacket.GetRegistrationComplete(nil)...)
				m.PlainNasDecode(&cp)
				m.SecurityHeader = nas.SecurityHeader{ProtocolDiscriminator: nasMessage.Epd5GSMobilityManagementMessage, SecurityHeaderType: 2}
				saved := ue.CipheringAlg
				ue.CipheringAlg = 5 // reserved identifier
				_, err = tglib.NASEncode(ue, m, true, false)
				ue.CipheringAlg = saved
			default:
				m := nas.NewMessage()
				cp := append([]byte{}, nasTestpacket.GetRegistrationComplete(nil)...)
				m.PlainNasDecode(&cp)
				m.SecurityHeader = nas.SecurityHeader{ProtocolDiscriminator: nasMessage.Epd5GSMobilityManagementMessage, SecurityHeaderType: 1}
				saved := ue.IntegrityAlg
				ue.IntegrityAlg = 6 // reserved identifier
				_, err = tglib.NASEncode(ue, m, true, false)
				ue.IntegrityAlg = saved
			}
			if err == nil {
				// accepted after all: then it was a send and consumed one COUNT
				next = (next + 1) & 0xffffff
				if ue.ULCount.Get() != next {
					fail("ul.count-after", "uplink COUNT is %d after an accepted send, expected %d", ue.ULCount.Get(), next)
					ue.ULCount.Set(uint16(next>>8), uint8(next))
				}
				continue
			}
			if ue.ULCount.Get() != ulB || ue.DLCount.Get() != dlB {
				fail("ul.count-after-error", "a refused message (%v) moved the counters from UL %d / DL %d to UL %d / DL %d", err, ulB, dlB, ue.ULCount.Get(), ue.DLCount.Get())
				ue.ULCount.Set(uint16(ulB>>8), uint8(ulB))
				ue.DLCount.Set(uint16(dlB>>8), uint8(dlB))
			}
			continue
		case "bad":
			// a message the codec cannot take (unknown message type, truncated body) is refused and is
			// not a sent message: the counters stay where they were and the history goes on
			ulB, dlB := ue.ULCount.Get(), ue.DLCount.Get()
			garbage := [][]byte{{0x7e, 0x00, 0xff}, {0x7e, 0x00, 0xff, 0x00, 0x00}, {0x7e, 0x00, 0x57, 0x2d}, {0x2e, 0x01, 0x01, 0xff}, {0x7e, 0x00, 0x00}}[num(op, "which", 0)%5]
			_, err := tglib.EncodeNasPduWithSecurity(ue, append([]byte{}, garbage...), uint8(num(op, "sht", 2)), true, false)
			if err == nil {
				// the codec took it (that is the codec's business, C08): it was a send like any other, its
				// content is not judged here, its COUNT is
				want := (next + 1) & 0xffffff
				if got := ue.ULCount.Get(); got != want {
					fail("ul.count-after", "uplink COUNT is %d after a send with COUNT %d, expected %d", got, next, want)
					ue.ULCount.Set(uint16(want>>8), uint8(want))
				}
				next = want
				continue
			}
			if ue.ULCount.Get() != ulB || ue.DLCount.Get() != dlB {
				fail("ul.count-after-error", "a refused message (%v) moved the counters from UL %d / DL %d to UL %d / DL %d", err, ulB, dlB, ue.ULCount.Get(), ue.DLCount.Get())
				ue.ULCount.Set(uint16(ulB>>8), uint8(ulB))
				ue.DLCount.Set(uint16(dlB>>8), uint8(dlB))
			}
			continue
		}
		msg := op["msg"].(hmap)
		plain := ulPlain(str(msg, "kind"), num(msg, "len", 0), uint64(num(msg, "seed", 0)))
		want, err := reencode(plain)
		if err != nil {
			fail("ul.pool", "the library cannot re-encode its own message: %v", err)
			continue
		}
		// the receiver must recover the message that was SUBMITTED: the pool only holds messages whose
		// canonical encoding is the submitted octets, so the codec's view of them must be those octets
		if !bytes.Equal(want, plain) {
			fail("ul.submitted-altered", "the submitted %s message %x is seen by the protection layer as %x: what the receiver recovers is not what was submitted", str(msg, "kind"), plain, want)
		}
		sht := uint8(num(op, "sht", 2))
		switch str(op, "op") {
		case "plain":
			before := ue.ULCount.Get()
			out, err := tglib.EncodeNasPduWithSecurity(ue, plain, sht, false, false)
			if err != nil {
				fail("ul.error", "%v", err)
				continue
			}
			if !bytes.Equal(out, want) {
				fail("ul.plain-changed", "without a security context the message must be sent unchanged: got %x want %x", out, want)
			}
			if ue.ULCount.Get() != before {
				fail("ul.plain-count", "uplink COUNT moved from %d to %d on a plain send", before, ue.ULCount.Get())
			}
			continue
		case "send", "newctx":
			newctx := str(op, "op") == "newctx"
			if newctx {
				next = 0
			}
			count := next
			out, err := tglib.EncodeNasPduWithSecurity(ue, plain, sht, true, newctx)
			if err != nil {
				fail("ul.error", "%v", err)
				continue
			}
			body := want
			if sht == 2 || sht == 4 {
				body, _ = crypto.Cipher(nea, kenc, count, 1, 0, want)
			}
			sqn := byte(count)
			mac, merr := crypto.MAC(nia, kint, count, 1, 0, append([]byte{sqn}, body...))
			if merr != nil {
				panic(merr)
			}
			exp := append([]byte{0x7e, sht}, mac...)
			exp = append(exp, sqn)
			exp = append(exp, body...)
			if !bytes.Equal(out, exp) {
				switch {
				case len(out) != len(exp):
					fail("ul.length", "protected message has %d octets, expected %d", len(out), len(exp))
				case out[0] != 0x7e || out[1] != sht:
					fail("ul.header", "header %x, expected 7e %02x", out[:2], sht)
				case out[6] != sqn:
					fail("ul.sqn", "sequence number octet %d, the %d-th COUNT is %d (SQN %d)", out[6], oi, count, sqn)
				case !bytes.Equal(out[7:], body):
					if (sht == 1 || sht == 3) && !bytes.Equal(out[7:], want) {
						fail("ul.clear-under-integrity-only", "header type %d is integrity protected only: the message must go in clear; %d of %d octets differ from the plain message", sht, diff(out[7:], want), len(want))
					} else if sht == 2 || sht == 4 {
						fail("ul.cipher", "ciphertext differs from reference 128-NEA%d(COUNT=%d, BEARER=1, DIRECTION=uplink) in %d of %d octets (message length %d)", nea, count, diff(out[7:], body), len(body), len(body))
					} else {
						fail("ul.body", "body differs")
					}
				default:
					fail("ul.mac", "MAC %x, reference 128-NIA%d(COUNT=%d, BEARER=1, DIRECTION=uplink) over SQN||message gives %x", out[2:6], nia, count, mac)
				}
			}
			next = (count + 1) & 0xffffff
			if got := ue.ULCount.Get(); got != next {
				fail("ul.count-after", "uplink COUNT is %d after sending with COUNT %d, expected %d", got, count, next)
				ue.ULCount.Set(uint16(next>>8), uint8(next))
			}
			if newctx && ue.DLCount.Get() != 0 {
				fail("ul.newctx-dl", "taking a new context into use must reset the downlink COUNT, it is %d", ue.DLCount.Get())
			}
			if byte(count) == 0xff {
				wraps256++
			}
			if count == 0xffffff {
				wraps24++
			}
		}
	}
	w.Log(world.Event{Ev: "hist", I: hi, UE: -1, Info: hmap{"wraps256": wraps256, "wraps24": wraps24, "ops": len(list(h, "ops"))}})
}

func diff(a, b []byte) int {
	n := 0
	for i := range a {
		if i >= len(b) || a[i] != b[i] {
			n++
		}
	}
	return n
}

// rigCount sweeps all 2^24 values of security.Count against the arithmetic model,
// and optionally walks a real send history across the 2^24 wrap.
func rigCount() {
	var c security.Count
	bad := 0
	for v := uint32(0); v < 1<<24; v++ {
		ov, sq := uint16(v>>8), uint8(v)
		c.Set(ov, sq)
		if c.Get() != v || c.SQN() != sq || c.Overflow() != ov {
			if bad < 5 {
				viol(0, "count.setget", "security.Count", fmt.Sprintf("Set(%d,%d): Get=%d SQN=%d Overflow=%d", ov, sq, c.Get(), c.SQN(), c.Overflow()), nil)
			}
			bad++
		}
		c.AddOne()
		if want := (v + 1) & 0xffffff; c.Get() != want || c.SQN() != uint8(want) || c.Overflow() != uint16(want>>8) {
			if bad < 5 {
				viol(0, "count.addone", "security.Count", fmt.Sprintf("after AddOne from %d: Get=%d SQN=%d Overflow=%d, expected %d", v, c.Get(), c.SQN(), c.Overflow(), want), nil)
			}
			bad++
		}
		// SetSQN / SetOverflow keep the other part
		c.Set(ov, sq)
		c.SetSQN(^sq)
		if c.Overflow() != ov || c.SQN() != ^sq {
			if bad < 5 {
				viol(0, "count.setsqn", "security.Count", fmt.Sprintf("SetSQN on %d disturbed the overflow", v), nil)
			}
			bad++
		}
		c.SetOverflow(^ov)
		if c.SQN() != ^sq || c.Overflow() != ^ov || c.Get() > 0xffffff {
			if bad < 5 {
				viol(0, "count.setoverflow", "security.Count", fmt.Sprintf("SetOverflow on %d: Get=%d", v, c.Get()), nil)
			}
			bad++
		}
	}
	w.Log(world.Event{Ev: "hist", I: 0, UE: -1, Info: hmap{"values": 1 << 24, "bad": bad}})
	if n := num(w.S.Rig, "walk", 0); n > 0 {
		// a real history walked by sending: NIA2/NEA0, one short message
		ue := tglib.NewRanUeContext("imsi-001010000000001", 1, 0, 2)
		ue.KnasInt = key16("000102030405060708090a0b0c0d0e0f")
		start := uint32(num(w.S.Rig, "walk_start", 0))
		ue.ULCount.Set(uint16(start>>8), uint8(start))
		plain := nasTestpacket.GetRegistrationComplete(nil)
		want, _ := reencode(plain)
		next := start
		bad := 0
		for i := 0; i < n; i++ {
			out, err := tglib.EncodeNasPduWithSecurity(ue, plain, 2, true, false)
			if err != nil {
				viol(1, "ul.error", "walk", err.Error(), nil)
				break
			}
			sqn := byte(next)
			mac, _ := crypto.MAC(2, ue.KnasInt[:], next, 1, 0, append([]byte{sqn}, want...))
			if out[6] != sqn || !bytes.Equal(out[2:6], mac) || !bytes.Equal(out[7:], want) {
				if bad < 3 {
					viol(1, "ul.walk", "walk/NIA2/NEA0", fmt.Sprintf("message %d (COUNT %d): sqn %d mac %x, expected sqn %d mac %x", i, next, out[6], out[2:6], sqn, mac), nil)
				}
				bad++
			}
			next = (next + 1) & 0xffffff
		}
		w.Log(world.Event{Ev: "hist", I: 1, UE: -1, Info: hmap{"walked": n, "bad": bad, "end_count": ue.ULCount.Get(), "expected_end": next}})
		if ue.ULCount.Get() != next {
			viol(1, "ul.count-after", "walk/NIA2/NEA0", fmt.Sprintf("COUNT %d after the walk, expected %d", ue.ULCount.Get(), next), nil)
		}
	}
}
