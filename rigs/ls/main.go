// ls holds the in-process link/library simulations: nodes with real library
// state on one side and the reference model on the other, connected by a
// simulated lossy/corrupting channel. Sub-rigs: ul (C06), dl (C10), aka (C15),
// dec (C14), count (C06 exhaustive counter sweep), corpus (C14 corpus helper).
package main

import (
	"os"
	"syscall"

	"verifsim/world"
)

type hmap = map[string]interface{}

func num(m hmap, k string, def int) int {
	if v, ok := m[k].(float64); ok {
		return int(v)
	}
	return def
}

func str(m hmap, k string) string {
	s, _ := m[k].(string)
	return s
}

func list(m hmap, k string) []interface{} {
	l, _ := m[k].([]interface{})
	return l
}

var w *world.World

// viol records one broken rule of history i.
func viol(i int, rule, site, detail string, extra hmap) {
	info := hmap{"rule": rule, "site": site, "detail": detail}
	for k, v := range extra {
		info[k] = v
	}
	w.Log(world.Event{Ev: "viol", I: i, UE: -1, Label: rule + "@" + site, Info: info})
}

func main() {
	// bound the address space so that runaway allocation ends in a Go "out of memory" fatal error
	lim := syscall.Rlimit{Cur: 6 << 30, Max: 6 << 30}
	syscall.Setrlimit(syscall.RLIMIT_AS, &lim)
	w = world.Init()
	switch str(w.S.Rig, "rig") {
	case "ul":
		rigUL()
	case "dl":
		rigDL()
	case "aka":
		rigAKA()
	case "dec":
		rigDEC()
	case "count":
		rigCount()
	case "corpus":
		rigCorpus()
	default:
		os.Exit(95)
	}
	w.Log(world.Event{Ev: "done", UE: -1})
	os.Exit(0)
}
