package main

// Schema-driven corpus: one well-formed value per NGAP message type and variant, built by walking the
// library's own Go types and their aper tags (the only machine-readable form of the NGAP schema in the
// tree), then encoded by the library's encoder. Used for breadth only: whatever the encoder produces
// and refuses is not judged here; the decoder is judged on these octets and on every fault applied
// to them (rigDEC).

import (
	"reflect"
	"strconv"
	"strings"

	"free5gclib/aper"
	"free5gclib/ngap/ngapType"

	"verifsim/kernel"
)

type tagParams struct {
	has                      map[string]bool
	sizeLB, sizeUB           int64
	valueLB, valueUB, refVal int64
	refName                  string
}

func parseTag(t string) tagParams {
	p := tagParams{has: map[string]bool{}}
	for _, part := range strings.Split(t, ",") {
		kv := strings.SplitN(part, ":", 2)
		if kv[0] == "" {
			continue
		}
		p.has[kv[0]] = true
		if len(kv) < 2 {
			continue
		}
		n, _ := strconv.ParseInt(kv[1], 10, 64)
		switch kv[0] {
		case "sizeLB":
			p.sizeLB = n
		case "sizeUB":
			p.sizeUB = n
		case "valueLB":
			p.valueLB = n
		case "valueUB":
			p.valueUB = n
		case "referenceFieldValue":
			p.refVal = n
		case "referenceFieldName":
			p.refName = kv[1]
		}
	}
	return p
}

// schemaGen fills values. mode 0: smallest sizes and values, optional parts absent, first alternatives;
// mode 1: largest (sizes capped), optional parts present, last alternatives; mode 2: drawn.
type schemaGen struct {
	r      *kernel.Rand
	mode   int
	budget int // values still to be filled before everything turns smallest (keeps messages small)
}

var (
	tOctet = reflect.TypeOf(aper.OctetString{})
	tBits  = reflect.TypeOf(aper.BitString{})
	tEnum  = reflect.TypeOf(aper.Enumerated(0))
)

func (g *schemaGen) size(p tagParams, unbounded int64) int64 {
	lo, hi := p.sizeLB, p.sizeUB
	if !p.has["sizeUB"] {
		lo, hi = 0, unbounded
	}
	capHi := hi
	if capHi > lo+40 {
		capHi = lo + 40
	}
	switch g.mode {
	case 0:
		return lo
	case 1:
		return capHi
	}
	switch g.r.Intn(4) {
	case 0:
		return lo
	case 1:
		if hi <= 300 {
			return hi
		}
		return capHi
	}
	return lo + g.r.Int63n(capHi-lo+1)
}

func (g *schemaGen) integer(p tagParams) int64 {
	lo, hi := p.valueLB, p.valueUB
	if !p.has["valueUB"] {
		lo, hi = 0, 1<<31
	}
	switch g.mode {
	case 0:
		return lo
	case 1:
		return hi
	}
	switch g.r.Intn(5) {
	case 0:
		return lo
	case 1:
		return hi
	case 2: // around the widths the constrained encoding switches at
		for _, b := range []int64{255, 256, 65535, 65536} {
			if v := lo + b; v <= hi && g.r.Chance(1, 2) {
				return v
			}
		}
	}
	return lo + g.r.Int63n(hi-lo+1)
}

func (g *schemaGen) fill(v reflect.Value, p tagParams, depth int) {
	t := v.Type()
	if g.budget--; g.budget < 0 {
		g.mode = 0
	}
	switch {
	case t == tOctet:
		v.SetBytes(g.r.Bytes(int(g.size(p, 6))))
		return
	case t == tBits:
		n := g.size(p, 24)
		b := g.r.Bytes(int((n + 7) / 8))
		if n%8 != 0 && len(b) > 0 {
			b[len(b)-1] &= byte(0xff << uint(8-n%8))
		}
		v.Set(reflect.ValueOf(aper.BitString{Bytes: b, BitLength: uint64(n)}))
		return
	case t == tEnum:
		v.SetUint(uint64(g.integer(p)))
		return
	}
	switch t.Kind() {
	case reflect.Int64, reflect.Int, reflect.Int32:
		v.SetInt(g.integer(p))
	case reflect.Uint64, reflect.Uint32, reflect.Uint8:
		v.SetUint(uint64(g.integer(p)))
	case reflect.Bool:
		v.SetBool(g.mode == 1 || (g.mode == 2 && g.r.Bool()))
	case reflect.String:
		n := g.size(p, 8)
		b := make([]byte, n)
		for i := range b {
			b[i] = "abcXYZ019 -."[g.r.Intn(12)]
		}
		v.SetString(string(b))
	case reflect.Ptr:
		v.Set(reflect.New(t.Elem()))
		g.fill(v.Elem(), p, depth)
	case reflect.Slice:
		et := t.Elem()
		if et.Kind() == reflect.Struct && et.NumField() == 3 && et.Field(0).Name == "Id" && parseTag(et.Field(2).Tag.Get("aper")).has["openType"] {
			// a protocol IE (or extension) container: one element per alternative the value type knows
			vt := et.Field(2).Type
			out := reflect.MakeSlice(t, 0, vt.NumField())
			for alt := 1; alt < vt.NumField(); alt++ {
				e := reflect.New(et).Elem()
				g.fill(e.Field(1), parseTag(et.Field(1).Tag.Get("aper")), depth+1)
				g.openType(e, 2, alt, depth+1)
				out = reflect.Append(out, e)
			}
			v.Set(out)
			return
		}
		lp := p
		if lp.has["sizeUB"] && lp.sizeUB > lp.sizeLB+2 { // lists: at most two elements above the minimum
			lp.sizeUB = lp.sizeLB + 2
		}
		n := int(g.size(lp, 2))
		if depth > 10 && int64(n) > p.sizeLB {
			n = int(p.sizeLB)
		}
		out := reflect.MakeSlice(t, n, n)
		for i := 0; i < n; i++ {
			g.fill(out.Index(i), tagParams{has: map[string]bool{}}, depth+1)
		}
		v.Set(out)
	case reflect.Struct:
		if t.NumField() > 0 && t.Field(0).Name == "Present" && t.Field(0).Type.Kind() == reflect.Int {
			g.choice(v, depth)
			return
		}
		for i := 0; i < t.NumField(); i++ {
			fp := parseTag(t.Field(i).Tag.Get("aper"))
			f := v.Field(i)
			if !f.CanSet() {
				continue
			}
			if fp.has["openType"] {
				vt := t.Field(i).Type
				if vt.NumField() < 2 {
					continue
				}
				alt := 1
				if g.mode == 1 {
					alt = vt.NumField() - 1
				} else if g.mode == 2 {
					alt = g.r.Range(1, vt.NumField()-1)
				}
				g.openType(v, i, alt, depth+1)
				continue
			}
			if fp.has["optional"] {
				if g.mode == 0 || depth > 12 || (g.mode == 2 && g.r.Chance(1, 3)) {
					continue
				}
				// an extension container whose value type knows no alternative cannot be populated
				if f.Kind() == reflect.Ptr && emptyContainer(f.Type().Elem()) {
					continue
				}
			}
			g.fill(f, fp, depth+1)
		}
	}
}

func emptyContainer(t reflect.Type) bool {
	if t.Kind() != reflect.Struct || t.NumField() != 1 || t.Field(0).Type.Kind() != reflect.Slice {
		return false
	}
	et := t.Field(0).Type.Elem()
	return et.Kind() == reflect.Struct && et.NumField() == 3 && et.Field(0).Name == "Id" && et.Field(2).Type.Kind() == reflect.Struct && et.Field(2).Type.NumField() < 2
}

// choice sets Present and the chosen alternative of a CHOICE struct (alternatives are the fields after
// Present; a trailing ChoiceExtensions alternative is not chosen).
func (g *schemaGen) choice(v reflect.Value, depth int) {
	t := v.Type()
	n := t.NumField() - 1
	if n >= 2 && t.Field(n).Name == "ChoiceExtensions" {
		n--
	}
	if n < 1 {
		return
	}
	alt := 1
	if g.mode == 1 {
		alt = n
	} else if g.mode == 2 {
		alt = g.r.Range(1, n)
	}
	v.Field(0).SetInt(int64(alt))
	g.fill(v.Field(alt), parseTag(t.Field(alt).Tag.Get("aper")), depth+1)
}

// openType populates field i of parent (an open type selected by a sibling reference field) with its
// alternative alt, and sets the sibling to the alternative's reference value.
func (g *schemaGen) openType(parent reflect.Value, i, alt, depth int) {
	pt := parent.Type()
	fp := parseTag(pt.Field(i).Tag.Get("aper"))
	val := parent.Field(i)
	vt := val.Type()
	ap := parseTag(vt.Field(alt).Tag.Get("aper"))
	val.Field(0).SetInt(int64(alt))
	g.fill(val.Field(alt), ap, depth)
	if ref := parent.FieldByName(fp.refName); ref.IsValid() && ref.Kind() == reflect.Struct && ref.NumField() == 1 {
		ref.Field(0).SetInt(ap.refVal)
	}
}

// schemaPDUs builds, for every message of the three PDU alternatives, the variants: smallest, largest and
// nRandom drawn ones.
func schemaPDUs(seed uint64, nRandom int) (out []ngapType.NGAPPDU, names []string) {
	root := kernel.New(seed).Sub("schema")
	kinds := []struct {
		present int
		name    string
	}{{ngapType.NGAPPDUPresentInitiatingMessage, "InitiatingMessage"}, {ngapType.NGAPPDUPresentSuccessfulOutcome, "SuccessfulOutcome"}, {ngapType.NGAPPDUPresentUnsuccessfulOutcome, "UnsuccessfulOutcome"}}
	for _, k := range kinds {
		var pdu ngapType.NGAPPDU
		f := reflect.ValueOf(&pdu).Elem().FieldByName(k.name)
		vt := f.Type().Elem().Field(2).Type
		for alt := 1; alt < vt.NumField(); alt++ {
			for variant := 0; variant < 2+nRandom; variant++ {
				func() {
					defer func() { recover() }()
					var p ngapType.NGAPPDU
					p.Present = k.present
					pf := reflect.ValueOf(&p).Elem().FieldByName(k.name)
					pf.Set(reflect.New(pf.Type().Elem()))
					m := pf.Elem()
					mode := variant
					if mode > 2 {
						mode = 2
					}
					g := &schemaGen{r: root.Sub(k.name + "/" + vt.Field(alt).Name + "/" + strconv.Itoa(variant)), mode: mode, budget: 600}
					g.fill(m.Field(1), parseTag(m.Type().Field(1).Tag.Get("aper")), 0)
					g.openType(m, 2, alt, 0)
					out = append(out, p)
					names = append(names, k.name+"/"+vt.Field(alt).Name)
				}()
			}
		}
	}
	return
}
