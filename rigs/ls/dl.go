package main

import (
	"bytes"
	"fmt"
	"reflect"

	libnas "free5gclib/nas"
	libngap "free5gclib/ngap"
	"tglib"

	"verifsim/kernel"
	"verifsim/ref/crypto"
	"verifsim/ref/nas"
	"verifsim/ref/ngap"
	"verifsim/world"
)

// dlPlain builds one plain downlink message the way a conformant AMF/SMF does (reference encoder).
func dlPlain(kind string, l int, seed uint64) []byte {
	r := kernel.New(seed)
	switch kind {
	case "authreq":
		return nas.AuthenticationRequest(byte(r.Intn(7)), []byte{0, 0}, r.Bytes(16), r.Bytes(16))
	case "smc":
		var o nas.SMCOptions
		o.IMEISVRequest = r.Bool()
		if r.Bool() {
			v := byte(r.Intn(4))
			o.Additional = &v
		}
		return nas.SecurityModeCommand(byte(r.Intn(3)), byte(1+r.Intn(2)), byte(r.Intn(7)), []byte{0x80 >> uint(r.Intn(3)), 0x40 >> uint(r.Intn(2))}, o)
	case "regaccept":
		var o nas.RegAcceptOptions
		if r.Bool() {
			g := &nas.GUTI{MCC: "001", MNC: "01", Region: byte(r.Intn(256)), SetID: uint16(r.Intn(1024)), Pointer: byte(r.Intn(64))}
			copy(g.TMSI[:], r.Bytes(4))
			o.GUTI = g
		}
		if r.Bool() {
			o.TAIList = []byte{0x00, 0x00, 0xf1, 0x10, 0x00, 0x00, 0x01}
		}
		if r.Bool() {
			o.AllowedNSSAI = []byte{4, 1, 1, 2, 3}
		}
		if r.Bool() {
			t := byte(0x5e)
			o.T3512 = &t
		}
		// one-octet IEs, any of which may be the last octet of the message
		if r.Intn(3) == 0 {
			v := byte(r.Intn(4))
			o.MICO = &v
		}
		if r.Intn(3) == 0 {
			v := byte(r.Intn(4))
			o.NetSlicing = &v
		}
		if r.Intn(3) == 0 {
			v := byte(r.Intn(4))
			o.NSSAIInclusion = &v
		}
		return nas.RegistrationAccept(o)
	case "cuc":
		var ind *byte
		if r.Bool() {
			v := byte(1)
			ind = &v
		}
		return nas.ConfigurationUpdateCommand(ind, nil)
	case "svcaccept":
		if r.Bool() {
			return nas.ServiceAccept([]byte{0x02, 0x00}, nil)
		}
		return nas.ServiceAccept(nil, nil)
	case "deregaccept":
		return nas.DeregistrationAccept()
	case "dlnas":
		psi := byte(1 + r.Intn(15))
		return nas.DLNASTransport(r.Bytes(1+l), &psi, nil)
	case "authresult": // AUTHENTICATION RESULT: ngKSI, EAP message (LV-E), TS 24.501 8.2.3
		return []byte{0x7e, 0x00, 0x5a, byte(r.Intn(7)), 0x00, 0x04, 0x03, byte(r.Intn(256)), 0x00, 0x04}
	case "authreject": // AUTHENTICATION REJECT, no optional IE
		return []byte{0x7e, 0x00, 0x58}
	case "idreq": // IDENTITY REQUEST: identity type
		return []byte{0x7e, 0x00, 0x5b, byte(1 + r.Intn(5))}
	case "svcreject": // SERVICE REJECT: 5GMM cause
		return []byte{0x7e, 0x00, 0x4d, byte(r.Pick(9, 10, 22, 28, 111))}
	case "regreject": // REGISTRATION REJECT: 5GMM cause
		return []byte{0x7e, 0x00, 0x44, byte(r.Pick(3, 7, 11, 22, 111))}
	}
	return nas.DeregistrationAccept()
}

func libDecodePlain(b []byte) (*libnas.Message, error) {
	m := libnas.NewMessage()
	cp := append([]byte{}, b...)
	err := m.PlainNasDecode(&cp)
	return m, err
}

func rigDL() {
	for hi, hv := range list(w.S.Rig, "histories") {
		runDLHistory(hi, hv.(hmap))
	}
}

func runDLHistory(hi int, h hmap) {
	nea, nia := uint8(num(h, "nea", 0)), uint8(num(h, "nia", 2))
	ue := tglib.NewRanUeContext("imsi-001010000000001", 1, nea, nia)
	ue.KnasEnc, ue.KnasInt = key16(str(h, "kenc")), key16(str(h, "kint"))
	kenc, kint := ue.KnasEnc[:], ue.KnasInt[:]
	if a, _ := h["authenticated"].(bool); a {
		// the context of a UE that has run the AKA: K_AMF is present, as after DeriveRESstarAndSetKey
		ue.Kamf = make([]byte, 32)
		copy(ue.Kamf, kint)
	}
	// the sender's next downlink COUNT; the UE starts in step with it
	next := uint32(num(h, "start_overflow", 0))<<8 | uint32(num(h, "start_sqn", 0))
	ue.DLCount.Set(uint16(next>>8), uint8(next))
	if next > 0 { // the UE has received COUNT next-1 before
		p := (next - 1) & 0xffffff
		ue.DLCount.Set(uint16(p>>8), uint8(p))
	}
	drops, wraps, delivered, excluded := 0, 0, 0, 0
	corrupted := 0
	// messages the UE has recovered stay what they were: the last few are looked at again after
	// every later delivery (a recovered message that shares memory with a receive buffer changes
	// under the UE's feet when the next message arrives)
	type heldMsg struct {
		got, want *libnas.Message
		oi        int
		kind      string
	}
	var held []heldMsg
	// the procedure's receive buffer, reused for every message as the emulator's procedures do
	rx := make([]byte, 4096)
	for oi, ov := range list(h, "ops") {
		op := ov.(hmap)
		sht := uint8(num(op, "sht", 2))
		site := fmt.Sprintf("%s/sht%d/NIA%d/NEA%d", str(op, "via"), sht, nia, nea)
		fail := func(rule, format string, a ...interface{}) {
			viol(hi, rule, site, fmt.Sprintf("op %d: ", oi)+fmt.Sprintf(format, a...), hmap{"op": oi})
		}
		msg := op["msg"].(hmap)
		plain := dlPlain(str(msg, "kind"), num(msg, "len", 0), uint64(num(msg, "seed", 0)))
		want, err := libDecodePlain(plain)
		if err != nil {
			// the codec refuses the plain message: outside this property (C08/C09); not sent
			excluded++
			continue
		}
		var pkg []byte
		var count uint32
		if sht == 0 {
			pkg = plain
		} else {
			if retx, _ := op["retx"].(bool); (sht == 3 || sht == 4) && (!retx || next > 200) {
				// the AMF takes the new context into use; a retransmission of that message (retx) goes on
				// counting - but not beyond what a receiver that missed the original could follow: after
				// 200 messages without an answer the AMF starts the context afresh
				next = 0
			}
			count = next
			inner := plain
			if sht == 2 || sht == 4 {
				inner, _ = crypto.Cipher(nea, kenc, count, 1, 1, plain)
			}
			mac, merr := crypto.MAC(nia, kint, count, 1, 1, append([]byte{byte(count)}, inner...))
			if merr != nil {
				panic(merr)
			}
			pkg = nas.Protect(sht, mac, byte(count), inner)
			if byte(count) == 0xff {
				wraps++
			}
			next = (count + 1) & 0xffffff
		}
		forced, _ := op["force_drop"].(bool)
		if b, _ := op["drop"].(bool); b && sht != 0 && ((sht != 3 && sht != 4) || forced) {
			drops++
			continue // lost on the way: the UE never sees this sequence number
		}
		if cb, ok := op["corrupt_mac"].(float64); ok && sht != 0 {
			// the message is damaged on the way: one bit of its MAC. Whatever the UE makes of it - the
			// pinned code prints the mismatch and goes on, a stricter one would discard it - the messages
			// that follow must be recovered with the AMF's COUNT; this one is not judged.
			bad := append([]byte{}, pkg...)
			bad[2+int(cb)%4] ^= 1 << uint(int(cb)/4%8)
			func() {
				defer func() { recover() }()
				tglib.NASDecode(ue, libnas.GetSecurityHeaderType(bad), bad)
			}()
			corrupted++
			continue
		}
		var got *libnas.Message
		if str(op, "via") == "ngap" {
			pdu := &ngap.PDU{Kind: ngap.Initiating, Proc: ngap.ProcDownlinkNASTransport, Crit: ngap.Ignore, IEs: []ngap.IE{
				{ID: ngap.IDAMFUENGAPID, Crit: ngap.Reject, Val: ngap.EncAMFUENGAPID(int64(1 + oi))},
				{ID: ngap.IDRANUENGAPID, Crit: ngap.Reject, Val: ngap.EncRANUENGAPID(1)},
				{ID: ngap.IDNASPDU, Crit: ngap.Reject, Val: ngap.EncOctetString(pkg)},
			}}
			enc, _ := pdu.Encode()
			// the emulator's flow: Read into the procedure's receive buffer (reused from one message to
			// the next), ngap.Decoder on recvMsg[:n], GetNasPdu on the decoded DownlinkNASTransport
			n := copy(rx, enc)
			dec, derr := libngap.Decoder(rx[:n])
			if derr != nil || dec.InitiatingMessage == nil || dec.InitiatingMessage.Value.DownlinkNASTransport == nil {
				fail("dl.ngap", "the DownlinkNASTransport carrying the message does not decode: %v", derr)
				continue
			}
			got = tglib.GetNasPdu(ue, dec.InitiatingMessage.Value.DownlinkNASTransport)
			if got == nil {
				fail("dl.error", "GetNasPdu returned nothing for a genuine message (plain %x)", plain)
			}
		} else {
			var derr error
			got, derr = tglib.NASDecode(ue, libnas.GetSecurityHeaderType(pkg), append([]byte{}, pkg...))
			if derr != nil {
				fail("dl.error", "NASDecode failed on a genuine message: %v (plain %x)", derr, plain)
				got = nil
			}
		}
		delivered++
		if got != nil {
			if !reflect.DeepEqual(got.GmmMessage, want.GmmMessage) || !reflect.DeepEqual(got.GsmMessage, want.GsmMessage) {
				ge, _ := got.PlainNasEncode()
				fail("dl.message", "recovered message differs from the one the AMF protected (%s, %d octets): re-encodes as %x, sent %x", str(msg, "kind"), len(plain), ge, plain)
			} else if ge, eerr := got.PlainNasEncode(); eerr != nil || !bytes.Equal(ge, plain) {
				// the pool holds canonical encodings only: what the UE recovered must encode back to the
				// octets the AMF protected (a field the decoder dropped shows here)
				fail("dl.message-lossy", "the recovered %s message encodes as %x (err %v), the AMF protected %x", str(msg, "kind"), ge, eerr, plain)
			}
		}
		for _, hm := range held {
			if !reflect.DeepEqual(hm.got.GmmMessage, hm.want.GmmMessage) || !reflect.DeepEqual(hm.got.GsmMessage, hm.want.GsmMessage) {
				ge, _ := hm.got.PlainNasEncode()
				fail("dl.message-changed-later", "the %s message recovered at op %d was correct then and has changed after this delivery: it now re-encodes as %x", hm.kind, hm.oi, ge)
			}
		}
		if got != nil {
			held = append(held, heldMsg{got, want, oi, str(msg, "kind")})
			if len(held) > 3 {
				held = held[1:]
			}
		}
		if sht != 0 {
			if c := ue.DLCount.Get(); c != count {
				fail("dl.count", "downlink COUNT estimate %d, the AMF used %d (after %d dropped message(s))", c, count, drops)
				ue.DLCount.Set(uint16(count>>8), uint8(count))
			}
		}
	}
	_ = bytes.Equal
	w.Log(world.Event{Ev: "hist", I: hi, UE: -1, Info: hmap{"drops": drops, "wraps256": wraps, "delivered": delivered, "excluded": excluded, "corrupted": corrupted}})
}
