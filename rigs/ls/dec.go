package main

import (
	"encoding/binary"
	"encoding/hex"
	"fmt"
	"os"
	"runtime/metrics"
	"syscall"
	"time"

	"free5gclib/aper"
	"free5gclib/ngap"
	"free5gclib/ngap/ngapType"
	"tglib/ngapTestpacket"

	"verifsim/kernel"
	"verifsim/world"
)

const (
	allocLimit = 16 << 20
	timeLimit  = 5 * time.Second
)

var allocSample = []metrics.Sample{{Name: "/gc/heap/allocs:bytes"}}

func allocated() uint64 {
	metrics.Read(allocSample)
	return allocSample[0].Value.Uint64()
}

// mutation i of a message: the enumeration order is prefixes, bit flips, byte sets.
func mutate(msg []byte, i int) ([]byte, string) {
	n := len(msg)
	if i < n {
		return append([]byte{}, msg[:i]...), fmt.Sprintf("prefix:%d", i)
	}
	i -= n
	if i < 8*n {
		out := append([]byte{}, msg...)
		out[i/8] ^= 0x80 >> uint(i%8)
		return out, fmt.Sprintf("flip:%d.%d", i/8, i%8)
	}
	i -= 8 * n
	vals := []byte{0x00, 0x7f, 0x80, 0xff, 0xc1, 0xc4}
	if i < len(vals)*n {
		out := append([]byte{}, msg...)
		out[i/len(vals)] = vals[i%len(vals)]
		return out, fmt.Sprintf("set:%d=%02x", i/len(vals), vals[i%len(vals)])
	}
	i -= len(vals) * n
	// adversarial two-octet fields (lengths and counts) and runs (fragmented lengths, saturated fields)
	pairs := [][2]byte{{0xff, 0xff}, {0x7f, 0xff}, {0x80, 0x00}, {0xbf, 0xff}, {0xc4, 0xc4}}
	if i < len(pairs)*n {
		out := append([]byte{}, msg...)
		o, pv := i/len(pairs), pairs[i%len(pairs)]
		out[o] = pv[0]
		if o+1 < n {
			out[o+1] = pv[1]
		}
		return out, fmt.Sprintf("set2:%d=%02x%02x", o, pv[0], pv[1])
	}
	i -= len(pairs) * n
	runs := []struct {
		v byte
		k int
	}{{0xc4, 8}, {0xc4, 40}, {0xff, 8}, {0x00, 8}}
	if i < len(runs)*n {
		o, rv := i/len(runs), runs[i%len(runs)]
		out := append([]byte{}, msg[:o]...)
		for k := 0; k < rv.k; k++ {
			out = append(out, rv.v)
		}
		if o+rv.k < n {
			out = append(out, msg[o+rv.k:]...)
		}
		return out, fmt.Sprintf("run:%d=%02xx%d", o, rv.v, rv.k)
	}
	return nil, ""
}

func nMutations(n int) int { return n + 8*n + 6*n + 5*n + 4*n }

// ---- structure-consistent faults: an IE value replaced while every enclosing length is kept right ----

type ieSpan struct{ hdr, val, end int } // header start, value start, value end (offsets into the message value)

// lenAt reads an X.691 length determinant below 16384 at b[i]; n = octets it takes (0 = unsupported).
func lenAt(b []byte, i int) (l, n int) {
	if i >= len(b) {
		return 0, 0
	}
	if b[i] < 0x80 {
		return int(b[i]), 1
	}
	if b[i]&0xc0 == 0x80 && i+1 < len(b) {
		return int(b[i]&0x3f)<<8 | int(b[i+1]), 2
	}
	return 0, 0
}

func putLen(l int) []byte {
	if l < 128 {
		return []byte{byte(l)}
	}
	return []byte{0x80 | byte(l>>8), byte(l)}
}

// ieSpans parses the outer shape every NGAP message of the corpus has: choice, procedure code,
// criticality, length, then a SEQUENCE whose first component is the ProtocolIE-Container
// (preamble octet, 16-bit count, IEs of id(2) criticality(1) length value).
func ieSpans(msg []byte) (valueOff int, spans []ieSpan) {
	if len(msg) < 7 {
		return 0, nil
	}
	l, n := lenAt(msg, 3)
	if n == 0 || 3+n+l != len(msg) {
		return 0, nil
	}
	v := msg[3+n:]
	if len(v) < 3 {
		return 0, nil
	}
	count := int(v[1])<<8 | int(v[2])
	p := 3
	for k := 0; k < count; k++ {
		if p+4 > len(v) {
			return 0, nil
		}
		il, in := lenAt(v, p+3)
		if in == 0 || p+3+in+il > len(v) {
			return 0, nil
		}
		spans = append(spans, ieSpan{p, p + 3 + in, p + 3 + in + il})
		p += 3 + in + il
	}
	if p != len(v) {
		return 0, nil
	}
	return 3 + n, spans
}

// replaceIE rebuilds the message with the value of IE i replaced by payload; the IE's own length
// and the message length are re-encoded so that only the value itself is wrong.
func replaceIE(msg []byte, valueOff int, sp ieSpan, payload []byte) []byte {
	v := msg[valueOff:]
	nv := append([]byte{}, v[:sp.hdr+3]...)
	nv = append(nv, putLen(len(payload))...)
	nv = append(nv, payload...)
	nv = append(nv, v[sp.end:]...)
	out := append([]byte{}, msg[:3]...)
	out = append(out, putLen(len(nv))...)
	return append(out, nv...)
}

// iePayloads are the replacement values: nothing, every single octet, and a few two- and
// three-octet values whose bits look like preambles, extension bits and length determinants.
func iePayloads() [][]byte {
	out := [][]byte{{}}
	for b := 0; b < 256; b++ {
		out = append(out, []byte{byte(b)})
	}
	for _, a := range []byte{0x00, 0x20, 0x40, 0x80, 0xc0, 0xff} {
		for _, b := range []byte{0x00, 0x01, 0x7f, 0x80, 0xff} {
			out = append(out, []byte{a, b}, []byte{a, b, 0x00})
		}
	}
	return out
}

// multiMutate applies a seeded double fault / splice.
func multiMutate(msg []byte, r *kernel.Rand, corpus [][]byte) ([]byte, string) {
	out := append([]byte{}, msg...)
	switch r.Intn(4) {
	case 0, 1:
		desc := "multi"
		for k := 0; k < 2+r.Intn(3); k++ {
			o := r.Intn(len(out))
			v := byte(r.Pick(0, 0x7f, 0x80, 0xff, r.Intn(256)))
			out[o] = v
			desc += fmt.Sprintf(":%d=%02x", o, v)
		}
		return out, desc
	case 2:
		other := corpus[r.Intn(len(corpus))]
		a, b := r.Intn(len(out)), r.Intn(len(other))
		return append(out[:a], other[b:]...), fmt.Sprintf("splice:%d+%d", a, b)
	default:
		return r.Bytes(r.Range(1, 300)), "random"
	}
}

// The time bound is judged on CPU time, so that a machine busy with other work cannot make an
// honest decoder look slow: the process CPU clock is sampled every 256 calls, and a call that took
// longer than the limit by the wall clock is reported only if the process also burned that much CPU
// since the last sample (which over-estimates the call by at most 255 ordinary decodes).
var (
	cpuMark  time.Duration
	cpuCalls int
)

func processCPU() time.Duration {
	var ru syscall.Rusage
	syscall.Getrusage(syscall.RUSAGE_SELF, &ru)
	return time.Duration(ru.Utime.Nano() + ru.Stime.Nano())
}

func decodeOne(hi int, in []byte, desc string) (panicked bool) {
	if cpuCalls%256 == 0 {
		cpuMark = processCPU()
	}
	cpuCalls++
	a0 := allocated()
	t0 := time.Now()
	defer func() {
		if p := recover(); p != nil {
			panicked = true
			viol(hi, "dec.panic", "ngap.Decoder", fmt.Sprintf("panic on %s: %v", desc, p), hmap{"input": hex.EncodeToString(in), "mutation": desc})
		}
		if d := time.Since(t0); d > timeLimit && processCPU()-cpuMark > timeLimit {
			viol(hi, "dec.slow", "ngap.Decoder", fmt.Sprintf("%v on %s (%d octets)", d, desc, len(in)), hmap{"input": hex.EncodeToString(in), "mutation": desc})
		}
		if a := allocated() - a0; a > allocLimit {
			viol(hi, "dec.alloc", "ngap.Decoder", fmt.Sprintf("%d MiB allocated on %s (%d octets)", a>>20, desc, len(in)), hmap{"input": hex.EncodeToString(in), "mutation": desc})
		}
	}()
	pdu, err := ngap.Decoder(in)
	if err == nil && pdu == nil {
		viol(hi, "dec.neither", "ngap.Decoder", "neither a PDU nor an error on "+desc, hmap{"input": hex.EncodeToString(in)})
	}
	return
}

// rigDEC enumerates the single-fault space over each corpus message.
func rigDEC() {
	prog, _ := os.OpenFile(os.Getenv("VSIM_LOG")+".progress", os.O_CREATE|os.O_WRONLY|os.O_TRUNC, 0644)
	mark := func(hi, mi int) {
		var b [8]byte
		binary.BigEndian.PutUint32(b[0:], uint32(hi))
		binary.BigEndian.PutUint32(b[4:], uint32(mi))
		prog.WriteAt(b[:], 0)
	}
	var corpus [][]byte
	for _, v := range list(w.S.Rig, "corpus") {
		b, _ := hex.DecodeString(v.(string))
		corpus = append(corpus, b)
	}
	if one := str(w.S.Rig, "single"); one != "" {
		b, _ := hex.DecodeString(one)
		mark(0, 0)
		decodeOne(0, b, "single")
		return
	}
	multi := num(w.S.Rig, "multi", 0)
	r := kernel.New(w.S.Seed)
	for hi, msg := range corpus {
		decodes, panics := 0, 0
		mark(hi, -1)
		decodeOne(hi, msg, "genuine")
		for mi := 0; mi < nMutations(len(msg)); mi++ {
			in, desc := mutate(msg, mi)
			mark(hi, mi)
			if decodeOne(hi, in, desc) {
				panics++
			}
			decodes++
		}
		// structure-consistent faults: each IE value in turn replaced by each payload, lengths right
		if off, spans := ieSpans(msg); spans != nil {
			pl := iePayloads()
			for si, sp := range spans {
				for pi, p := range pl {
					in := replaceIE(msg, off, sp, p)
					mark(hi, 1<<29+si<<12+pi)
					if decodeOne(hi, in, fmt.Sprintf("ie:%d=%x", si, p)) {
						panics++
					}
					decodes++
				}
			}
		}
		for k := 0; k < multi; k++ {
			in, desc := multiMutate(msg, r, corpus)
			mark(hi, 1<<30+k)
			w.Log(world.Event{Ev: "multi", I: hi, UE: -1, Hex: hex.EncodeToString(in)})
			if decodeOne(hi, in, desc) {
				panics++
			}
			decodes++
		}
		w.Log(world.Event{Ev: "hist", I: hi, UE: -1, Info: hmap{"decodes": decodes, "panics": panics, "len": len(msg)}})
	}
}

// rigCorpus emits encodings of the library's own builders for breadth (corpus only; no oracle).
func rigCorpus() {
	var pdus []ngapType.NGAPPDU
	add := func(f func() ngapType.NGAPPDU) {
		defer func() { recover() }()
		pdus = append(pdus, f())
	}
	add(func() ngapType.NGAPPDU { return ngapTestpacket.BuildNGSetupRequest([]byte{0x02, 0xf8, 0x39}) })
	add(func() ngapType.NGAPPDU { return ngapTestpacket.BuildNGReset(nil) })
	// long lists give count fields (incl. the semi-constrained 1..65536 one) room for adversarial runs
	add(func() ngapType.NGAPPDU {
		l := &ngapType.UEAssociatedLogicalNGConnectionList{}
		for i := 0; i < 40; i++ {
			l.List = append(l.List, ngapType.UEAssociatedLogicalNGConnectionItem{AMFUENGAPID: &ngapType.AMFUENGAPID{Value: int64(1000 + i)}, RANUENGAPID: &ngapType.RANUENGAPID{Value: int64(i)}})
		}
		return ngapTestpacket.BuildNGReset(l)
	})
	add(func() ngapType.NGAPPDU {
		l := &ngapType.UEAssociatedLogicalNGConnectionList{}
		l.List = append(l.List, ngapType.UEAssociatedLogicalNGConnectionItem{AMFUENGAPID: &ngapType.AMFUENGAPID{Value: 7}})
		return ngapTestpacket.BuildNGReset(l)
	})
	add(ngapTestpacket.BuildNGResetAcknowledge)
	add(func() ngapType.NGAPPDU { return ngapTestpacket.BuildInitialUEMessage(1, []byte{0x7e, 0, 0x41}, "") })
	add(ngapTestpacket.BuildErrorIndication)
	add(func() ngapType.NGAPPDU { return ngapTestpacket.BuildUEContextReleaseRequest(1, 2, []int64{3}) })
	add(func() ngapType.NGAPPDU { return ngapTestpacket.BuildUEContextReleaseComplete(1, 2, []int64{3}) })
	add(func() ngapType.NGAPPDU { return ngapTestpacket.BuildUEContextModificationResponse(1, 2) })
	add(func() ngapType.NGAPPDU { return ngapTestpacket.BuildUplinkNasTransport(1, 2, []byte{0x7e, 0, 0x43}) })
	add(func() ngapType.NGAPPDU { return ngapTestpacket.BuildInitialContextSetupResponse(1, 2, 5, "10.0.0.1", nil) })
	add(func() ngapType.NGAPPDU { return ngapTestpacket.BuildInitialContextSetupFailure(1, 2) })
	add(func() ngapType.NGAPPDU { return ngapTestpacket.BuildPathSwitchRequest(1, 2) })
	add(func() ngapType.NGAPPDU { return ngapTestpacket.BuildHandoverRequestAcknowledge(1, 2) })
	add(func() ngapType.NGAPPDU { return ngapTestpacket.BuildHandoverFailure(1) })
	add(ngapTestpacket.BuildPDUSessionResourceReleaseResponse)
	add(ngapTestpacket.BuildAMFConfigurationUpdateFailure)
	add(func() ngapType.NGAPPDU { return ngapTestpacket.BuildUERadioCapabilityCheckRequest(1, 2) })
	add(ngapTestpacket.BuildUERadioCapabilityCheckResponse)
	add(ngapTestpacket.BuildHandoverCancel)
	add(ngapTestpacket.BuildLocationReportingFailureIndication)
	add(func() ngapType.NGAPPDU { return ngapTestpacket.BuildPDUSessionResourceSetupResponse(1, 2, "10.0.0.1") })
	add(func() ngapType.NGAPPDU { return ngapTestpacket.BuildPDUSessionResourceModifyResponse(1, 2) })
	add(ngapTestpacket.BuildPDUSessionResourceNotify)
	add(func() ngapType.NGAPPDU { return ngapTestpacket.BuildPDUSessionResourceModifyIndication(1, 2) })
	add(func() ngapType.NGAPPDU { return ngapTestpacket.BuildUEContextModificationFailure(1, 2) })
	add(ngapTestpacket.BuildRRCInactiveTransitionReport)
	add(func() ngapType.NGAPPDU { return ngapTestpacket.BuildHandoverNotify(1, 2) })
	add(func() ngapType.NGAPPDU { return ngapTestpacket.BuildUplinkRanStatusTransfer(1, 2) })
	add(func() ngapType.NGAPPDU {
		return ngapTestpacket.BuildNasNonDeliveryIndication(1, 2, aper.OctetString("\x7e\x00\x43"))
	})
	add(ngapTestpacket.BuildRanConfigurationUpdate)
	add(func() ngapType.NGAPPDU { return ngapTestpacket.BuildRanConfigurationUpdateAck(nil) })
	add(ngapTestpacket.BuildUplinkRanConfigurationTransfer)
	add(ngapTestpacket.BuildUplinkUEAssociatedNRPPATransport)
	add(ngapTestpacket.BuildUplinkNonUEAssociatedNRPPATransport)
	add(ngapTestpacket.BuildLocationReport)
	add(ngapTestpacket.BuildUERadioCapabilityInfoIndication)
	add(ngapTestpacket.BuildAMFConfigurationUpdateAcknowledge)
	add(func() ngapType.NGAPPDU { return ngapTestpacket.BuildCellTrafficTrace(1, 2) })
	add(ngapTestpacket.BuildOverloadStop)
	n := 0
	emit := func(p ngapType.NGAPPDU, label string) bool {
		ok := false
		limit := 4096
		if label != "builder" {
			limit = 700 // the fault space of one message grows with the square of its length
		}
		func() {
			defer func() { recover() }()
			b, err := ngap.Encoder(p)
			if err == nil && len(b) > 0 && len(b) <= limit {
				w.Log(world.Event{Ev: "corpus", I: n, UE: -1, Label: label, Hex: hex.EncodeToString(b)})
				n++
				ok = true
			}
		}()
		return ok
	}
	for _, p := range pdus {
		emit(p, "builder")
	}
	// every message type of the schema, smallest / largest / drawn variants (see schema.go)
	sp, names := schemaPDUs(w.S.Seed, num(w.S.Rig, "schema_random", 2))
	types, encoded := map[string]bool{}, 0
	for i, p := range sp {
		if emit(p, "schema:"+names[i]) {
			types[names[i]] = true
			encoded++
		}
	}
	w.Log(world.Event{Ev: "schema", UE: -1, Info: hmap{"built": len(sp), "encoded": encoded, "message_types": len(types)}})
}
