package main

import (
	"bytes"
	"encoding/hex"
	"fmt"

	"free5gclib/milenage"

	"verifsim/ref/crypto"
	"verifsim/world"
)

func hx(s string) []byte { b, _ := hex.DecodeString(s); return b }

func cmp48(a, b []byte) int { return bytes.Compare(a, b) }

func inc48(a []byte, d uint64) []byte {
	var v uint64
	for _, x := range a {
		v = v<<8 | uint64(x)
	}
	v = (v + d) & 0xffffffffffff
	out := make([]byte, 6)
	for i := 5; i >= 0; i-- {
		out[i] = byte(v)
		v >>= 8
	}
	return out
}

type challenge struct{ rnd, autn, sqn []byte }

// nodeMem is the long-lived memory of the two nodes: a home environment and a USIM keep K, OPc,
// SQN and the current RAND in fixed buffers that are overwritten in place from one exchange (and
// one subscriber) to the next. Histories marked "reuse" hand the library these same buffers every
// time, so that anything the library remembers about an argument by reference (instead of by
// value) shows up as a wrong result later in the process.
var nodeMem = map[string][]byte{}

type inbuf struct {
	name      string
	got, want []byte
}

// rigAKA: HE node (library generator) and UE node (library checker), both shadowed by the
// reference Milenage, with a channel that corrupts, replays and reorders tokens.
func rigAKA() {
	for hi, hv := range list(w.S.Rig, "histories") {
		runAKAHistory(hi, hv.(hmap))
	}
}

func runAKAHistory(hi int, h hmap) {
	k, op, amf := hx(str(h, "k")), hx(str(h, "op")), hx(str(h, "amf"))
	op0 := op
	sqnHE, sqnUE := hx(str(h, "sqn_he")), hx(str(h, "sqn_ue"))
	fail := func(oi int, rule, site, format string, a ...interface{}) {
		viol(hi, rule, site, fmt.Sprintf("op %d: ", oi)+fmt.Sprintf(format, a...), hmap{"op": oi})
	}
	reuse, _ := h["reuse"].(bool)
	var ins []inbuf
	// in hands an input to the library: a fresh copy, or (reuse) the node's fixed buffer for it
	in := func(name string, b []byte) []byte {
		var s []byte
		if reuse {
			s = nodeMem[name]
			if len(s) != len(b) {
				s = make([]byte, len(b))
				nodeMem[name] = s
			}
			copy(s, b)
		} else {
			s = append([]byte{}, b...)
		}
		ins = append(ins, inbuf{name, s, append([]byte{}, b...)})
		return s
	}
	// inputs belong to the caller: the library must leave them as they were
	checkIns := func(oi int, site string) {
		for _, x := range ins {
			if !bytes.Equal(x.got, x.want) {
				fail(oi, "aka.input-mutated", site, "the library changed its input %s from %x to %x", x.name, x.want, x.got)
			}
		}
		ins = ins[:0]
	}
	refOPc := crypto.OPc(k, op)
	opc, err := milenage.GenerateOPC(in("k", k), in("op", op))
	checkIns(-1, "GenerateOPC")
	if err != nil || !bytes.Equal(opc, refOPc) {
		fail(-1, "aka.opc", "GenerateOPC", "OPc %x (err %v), TS 35.206 gives %x", opc, err, refOPc)
		opc = refOPc
	}
	var sent []challenge
	accepted, resyncs, rejected := 0, 0, 0
	sinceFault := 0
	for oi, ov := range list(h, "ops") {
		op := ov.(hmap)
		kind := str(op, "op")
		var ch challenge
		fault := str(op, "fault")
		if kind == "badkey" {
			// a malformed K (15 or 17 octets) is refused; the next exchanges go on as if nothing had happened
			bk := append(append([]byte{}, k...), 0x55)
			if num(op, "short", 0) == 1 {
				bk = bk[:15]
			}
			func() {
				defer func() {
					if p := recover(); p != nil {
						fail(oi, "aka.panic", "badkey", "panic on a malformed K: %v", p)
					}
				}()
				ma, ms := make([]byte, 8), make([]byte, 8)
				if e := milenage.F1(in("opc", opc), in("badk", bk), in("rnd", hx(str(op, "rand"))), in("sqn", sqnHE), in("amf", amf), ma, ms); e == nil {
					fail(oi, "aka.badkey-accepted", "F1", "a K of %d octets was accepted", len(bk))
				}
				if _, e := milenage.GenerateOPC(in("badk", bk), in("op", op0)); e == nil {
					fail(oi, "aka.badkey-accepted", "GenerateOPC", "a K of %d octets was accepted", len(bk))
				}
				ins = ins[:0]
			}()
			continue
		}
		switch kind {
		case "challenge":
			rnd := hx(str(op, "rand"))
			if (oi+hi)%3 == 0 {
				// the home environment provisions another subscriber in between: what GenerateOPC returned
				// for this one earlier belongs to the caller and stays what it was
				k2, op2 := append([]byte{}, rnd...), append([]byte{}, k...)
				k2[0] ^= 0x5a
				o2, e2 := milenage.GenerateOPC(in("k", k2), in("op", op2))
				checkIns(oi, "GenerateOPC")
				if want := crypto.OPc(k2, op2); e2 != nil || !bytes.Equal(o2, want) {
					fail(oi, "aka.opc", "GenerateOPC", "another subscriber: OPc %x (err %v), TS 35.206 gives %x", o2, e2, want)
				}
				if !bytes.Equal(opc, refOPc) {
					fail(oi, "aka.opc-retained", "GenerateOPC", "the OPc returned earlier for this subscriber turned from %x into %x when another subscriber's OPc was computed", refOPc, opc)
					opc = append([]byte{}, refOPc...)
				}
			}
			sqnHE = inc48(sqnHE, uint64(num(op, "delta", 1)))
			autn, ik, ck, ak, res := make([]byte, 16), make([]byte, 16), make([]byte, 16), make([]byte, 6), make([]byte, 8)
			rl := uint(8)
			milenage.MilenageGenerate(in("opc", opc), in("amf", amf), in("k", k), in("sqn", sqnHE), in("rnd", rnd), autn, ik, ck, ak, res, &rl)
			checkIns(oi, "MilenageGenerate")
			rres, rck, rik, rak, raks := crypto.F2345(k, refOPc, rnd)
			rautn := crypto.AUTN(k, refOPc, rnd, sqnHE, amf)
			if rl != 8 || !bytes.Equal(autn, rautn) || !bytes.Equal(res, rres) || !bytes.Equal(ck, rck) || !bytes.Equal(ik, rik) || !bytes.Equal(ak, rak) {
				fail(oi, "aka.generate", "MilenageGenerate", "AUTN %x RES %x CK %x IK %x AK %x, TS 35.206 gives %x %x %x %x %x", autn, res, ck, ik, ak, rautn, rres, rck, rik, rak)
			}
			// the primitive entry points
			ma, ms := make([]byte, 8), make([]byte, 8)
			rma, rms := crypto.F1(k, refOPc, rnd, sqnHE, amf)
			e1 := milenage.F1(in("opc", opc), in("k", k), in("rnd", rnd), in("sqn", sqnHE), in("amf", amf), ma, ms)
			checkIns(oi, "F1")
			if e := e1; e != nil || !bytes.Equal(ma, rma) || !bytes.Equal(ms, rms) {
				fail(oi, "aka.f1", "F1", "f1 %x f1* %x (err %v), TS 35.206 gives %x %x", ma, ms, e, rma, rms)
			}
			r2, c2, i2, a2, s2 := make([]byte, 8), make([]byte, 16), make([]byte, 16), make([]byte, 6), make([]byte, 6)
			e2 := milenage.F2345(in("opc", opc), in("k", k), in("rnd", rnd), r2, c2, i2, a2, s2)
			checkIns(oi, "F2345")
			if e := e2; e != nil || !bytes.Equal(r2, rres) || !bytes.Equal(c2, rck) || !bytes.Equal(i2, rik) || !bytes.Equal(a2, rak) || !bytes.Equal(s2, raks) {
				fail(oi, "aka.f2345", "F2345", "f2 %x f3 %x f4 %x f5 %x f5* %x (err %v), TS 35.206 gives %x %x %x %x %x", r2, c2, i2, a2, s2, e, rres, rck, rik, rak, raks)
			}
			// each function on its own: the outputs are optional (nil = not wanted), and what is asked
			// for must not depend on what else is asked for
			func() {
				mask := (oi*5+hi*3)%31 + 1
				defer func() {
					if p := recover(); p != nil {
						fail(oi, "aka.panic", "F2345", "panic when asked for the outputs %05b (f2 f3 f4 f5 f5*) only: %v", mask, p)
						ins = ins[:0]
					}
				}()
				want := [][]byte{rres, rck, rik, rak, raks}
				out := make([][]byte, 5)
				for b := range out {
					if mask&(1<<uint(b)) != 0 {
						out[b] = make([]byte, len(want[b]))
					}
				}
				e := milenage.F2345(in("opc", opc), in("k", k), in("rnd", rnd), out[0], out[1], out[2], out[3], out[4])
				checkIns(oi, "F2345")
				for b := range out {
					if out[b] != nil && (e != nil || !bytes.Equal(out[b], want[b])) {
						fail(oi, "aka.f2345-subset", "F2345", "asked for the outputs %05b (f2 f3 f4 f5 f5*) only: output %d is %x (err %v), TS 35.206 gives %x", mask, b, out[b], e, want[b])
					}
				}
				var oa, om []byte
				if mask&1 != 0 {
					oa = make([]byte, 8)
				}
				if mask&2 != 0 || oa == nil {
					om = make([]byte, 8)
				}
				e = milenage.F1(in("opc", opc), in("k", k), in("rnd", rnd), in("sqn", sqnHE), in("amf", amf), oa, om)
				checkIns(oi, "F1")
				if e != nil || (oa != nil && !bytes.Equal(oa, rma)) || (om != nil && !bytes.Equal(om, rms)) {
					fail(oi, "aka.f1-subset", "F1", "f1 %x f1* %x (err %v) when only one is asked for, TS 35.206 gives %x %x", oa, om, e, rma, rms)
				}
			}()
			ch = challenge{rnd, rautn, append([]byte{}, sqnHE...)}
			sent = append(sent, ch)
		case "replay":
			if len(sent) == 0 {
				continue
			}
			ch = sent[num(op, "idx", 0)%len(sent)]
		default:
			continue
		}
		if b, _ := op["drop"].(bool); b {
			sinceFault = 0
			continue
		}
		// channel faults on the token
		autn, rnd := append([]byte{}, ch.autn...), append([]byte{}, ch.rnd...)
		switch fault {
		case "flip-autn":
			autn[num(op, "off", 0)%16] ^= 1 << uint(num(op, "bit", 0)%8)
		case "set-autn":
			autn[num(op, "off", 0)%16] = byte(num(op, "val", 0))
		case "flip-rand":
			rnd[num(op, "off", 0)%16] ^= 1 << uint(num(op, "bit", 0)%8)
		}
		if fault != "" || kind == "replay" {
			sinceFault = 0
		}
		// what the reference says about the delivered token
		_, _, _, ak, _ := crypto.F2345(k, refOPc, rnd)
		rx := make([]byte, 6)
		for i := range rx {
			rx[i] = autn[i] ^ ak[i]
		}
		macA, _ := crypto.F1(k, refOPc, rnd, rx, autn[6:8])
		authentic := bytes.Equal(macA, autn[8:16])
		fresh := cmp48(rx, sqnUE) > 0
		// UE node
		ik, ck, res, auts := make([]byte, 16), make([]byte, 16), make([]byte, 8), make([]byte, 14)
		rl := uint(0)
		rc := milenage.Milenage_check(in("ue-opc", opc), in("ue-k", k), in("ue-sqn", sqnUE), in("ue-rnd", rnd), in("ue-autn", autn), ik, ck, res, &rl, auts)
		checkIns(oi, "Milenage_check")
		site := "Milenage_check/" + kind
		if fault != "" {
			site += "/" + fault
		}
		switch {
		case authentic && fresh:
			rres, rck, rik, _, _ := crypto.F2345(k, refOPc, rnd)
			if rc != 0 {
				fail(oi, "aka.reject-valid", site, "a genuine AUTN with SQN %x > SQN_UE %x was refused with %d", rx, sqnUE, rc)
			} else if !bytes.Equal(res, rres) || !bytes.Equal(ck, rck) || !bytes.Equal(ik, rik) || rl != 8 {
				fail(oi, "aka.check-output", site, "RES %x CK %x IK %x, the network holds %x %x %x", res, ck, ik, rres, rck, rik)
			}
			accepted++
			sqnUE = rx
			if sinceFault >= 0 {
				sinceFault++
			}
		case authentic && !fresh:
			if rc != -2 {
				fail(oi, "aka.stale-not-resync", site, "a genuine but stale AUTN (SQN %x <= SQN_UE %x) returned %d, expected -2", rx, sqnUE, rc)
				break
			}
			resyncs++
			rauts := crypto.AUTS(k, refOPc, rnd, sqnUE)
			if !bytes.Equal(auts, rauts) {
				fail(oi, "aka.auts", site, "AUTS %x, TS 33.102 6.3.3 gives %x", auts, rauts)
			}
			// another subscriber's challenge is generated between the UE's resynchronisation and the
			// network-side AUTS check (a home environment serves many subscribers)
			if il, _ := op["interleave"].(bool); il {
				ok2, oopc2, rnd2 := hx(str(op, "k2")), hx(str(op, "opc2")), hx(str(op, "rand2"))
				if len(ok2) == 16 && len(oopc2) == 16 && len(rnd2) == 16 {
					a2, i2, c2, k2b, r2 := make([]byte, 16), make([]byte, 16), make([]byte, 16), make([]byte, 6), make([]byte, 8)
					l2 := uint(8)
					sq2 := []byte{0, 0, 0, 0, 1, 2}
					milenage.MilenageGenerate(in("opc", oopc2), in("amf", amf), in("k", ok2), in("sqn", sq2), in("rnd", rnd2), a2, i2, c2, k2b, r2, &l2)
					checkIns(oi, "MilenageGenerate")
					if want := crypto.AUTN(ok2, oopc2, rnd2, sq2, amf); !bytes.Equal(a2, want) {
						fail(oi, "aka.generate", "MilenageGenerate", "interleaved subscriber: AUTN %x, TS 35.206 gives %x", a2, want)
					}
				}
			}
			// network side
			out := make([]byte, 6)
			v1 := milenage.Milenage_auts(in("opc", opc), in("k", k), in("rnd", rnd), in("auts", rauts), out)
			checkIns(oi, "Milenage_auts")
			if v := v1; v != 0 || !bytes.Equal(out, sqnUE) {
				fail(oi, "aka.auts-check", "Milenage_auts", "genuine AUTS: return %d, SQN %x; the UE's SQN is %x", v, out, sqnUE)
			}
			// corrupted AUTS must be refused
			bad := append([]byte{}, rauts...)
			bad[num(op, "auts_off", 6)%14] ^= 1 << uint(num(op, "auts_bit", 0)%8)
			v2 := milenage.Milenage_auts(in("opc", opc), in("k", k), in("rnd", rnd), in("auts", bad), out)
			checkIns(oi, "Milenage_auts")
			if v := v2; v == 0 {
				fail(oi, "aka.auts-forged", "Milenage_auts", "AUTS with octet %d corrupted was accepted", num(op, "auts_off", 6)%14)
			}
			sqnHE = inc48(sqnUE, 0) // resynchronise
		default:
			rejected++
			if rc == 0 {
				fail(oi, "aka.accept-forged", site, "AUTN %x is not authentic (MAC-A must be %x) but Milenage_check accepted it", autn, macA)
			}
		}
	}
	// bounded liveness: once faults stop, a fresh challenge is accepted (checked by the generator appending clean challenges)
	w.Log(world.Event{Ev: "hist", I: hi, UE: -1, Info: hmap{"accepted": accepted, "resyncs": resyncs, "rejected": rejected, "clean_accepts_after_last_fault": sinceFault}})
	ops := list(h, "ops")
	clean := func(o interface{}) bool {
		m := o.(hmap)
		d, _ := m["drop"].(bool)
		return str(m, "op") == "challenge" && str(m, "fault") == "" && !d
	}
	// only a history that really ends with the clean exchanges (not one cut down by the shrinker) is judged
	if fl := num(h, "expect_final_accepts", 0); fl > 0 && len(ops) >= fl && clean(ops[len(ops)-1]) && clean(ops[len(ops)-2]) && sinceFault < 1 {
		viol(hi, "aka.liveness", "history", fmt.Sprintf("no challenge was accepted within the %d clean exchanges after the last fault", fl), nil)
	}
}
