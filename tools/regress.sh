#!/bin/bash
# usage: tools/regress.sh [ids...]  -> runs every kept seeded change against its property's quick check (in parallel, 4 at a time)
cd /verif
ids=${@:-$(ls seeded)}
run() { id=$1; p=${id%%-*}; out=$(LINES_MAX=2 tools/try_mutant.sh seeded/$id/patch.diff $p 2>&1 | head -3 | cut -c1-160 | tr '\n' ' '); echo "$id: $out"; }
export -f run
printf "%s\n" $ids | xargs -P 4 -I{} bash -c 'run {}'
