#!/usr/bin/env python3
# Regenerates the table of seeded changes in DESIGN.md (between the SEEDED-TABLE markers) from seeded/*/meta.json.
import json,glob,re,os
rows=[]
for f in sorted(glob.glob('/verif/seeded/*/meta.json')):
    d=json.load(open(f)); sid=f.split('/')[3]
    wave=re.search(r'wave (\d+)', d.get('source','')); wave=wave.group(1) if wave else '?'
    esc=lambda s: str(s).replace('|','\\|').replace('\n',' ')
    rows.append(f"| {sid} | {wave} | {esc(d.get('change',''))} | {esc(d.get('needs_to_manifest',''))} | {esc(d.get('detected_by',''))} | {'yes' if d.get('missed_before_strengthening') else ''} |")
tbl="| id | wave | change | needs, to manifest | caught by (quick tier) | missed at first |\n|---|---|---|---|---|---|\n"+"\n".join(rows)
p='/verif/DESIGN.md'; s=open(p).read()
a='<!-- SEEDED-TABLE-BEGIN -->'; b='<!-- SEEDED-TABLE-END -->'
if a in s:
    s=s[:s.index(a)+len(a)]+"\n"+tbl+"\n"+s[s.index(b):]
    open(p,'w').write(s)
print(len(rows),'rows')
