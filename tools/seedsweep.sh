#!/bin/bash
# usage: tools/seedsweep.sh <tier> <first seed> <last seed> [ids...]   (run from a /verif snapshot or /verif itself)
# Runs the checks on the unchanged tree under several VERIF_SEED values; prints one line per run; any rc!=0 is a problem.
tier=$1; a=$2; b=$3; shift 3
ids=${@:-C01 C02 C05 C06 C10 C11 C12 C14 C15 C16 C18 C19 C20}
export VERIF_DIR=$PWD GOFLAGS=-mod=mod GOPROXY=off GOSUMDB=off GOTOOLCHAIN=local
CGO_ENABLED=0 go build -o bin/ ./cmd/... || exit 2
for s in $(seq $a $b); do for c in $ids; do
  t0=$(date +%s); VERIF_SEED=$s ./bin/vsim check $c --tier $tier > out_$c_$s.log 2>&1; rc=$?
  echo "seed=$s $c rc=$rc $(( $(date +%s)-t0 ))s $(grep -c '^VIOLATION' out_$c_$s.log) viol | $(grep -E '^  key=' out_$c_$s.log | head -3 | tr '\n' ' ')"
done; done
