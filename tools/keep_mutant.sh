#!/bin/bash
# usage: tools/keep_mutant.sh <agent worktree> <letter> <property> "<change>" "<needs_to_manifest>" "<detected_by or MISSED>" [demo cmd]
# Copies a confirmed seeded change into /verif/seeded/<property>-<letter>/ (patch.diff, demo, NOTES.md, meta.json).
set -eu
WT=$1; X=$2; P=$3; CHANGE=$4; NEEDS=$5; DET=$6; CMD=${7:-}
D=/verif/seeded/$P-$X
rm -rf $D; mkdir -p $D
cp $WT/MUT_$X.diff $D/patch.diff
[ -d $WT/demo_$X ] && cp -r $WT/demo_$X $D/demo
[ -f $WT/NOTES.md ] && cp $WT/NOTES.md $D/NOTES.md
[ -f $WT/PLACE_$X.txt ] && cp $WT/PLACE_$X.txt $D/
if [ -z "$CMD" ]; then
  if ls $WT/demo_$X/*_test.go >/dev/null 2>&1; then CMD="go test -vet=off -count=1 ./demo_$X/"; else CMD="go run ./demo_$X"; fi
fi
python3 - "$D" "$P" "$CHANGE" "$NEEDS" "$DET" "$CMD" "${WAVE:-2}" "${MISSED_BEFORE:-false}" <<'E'
import json,sys
d,p,change,needs,det,cmd,wave,missed=sys.argv[1:9]
json.dump({
 "property": p,
 "change": change,
 "needs_to_manifest": needs,
 "source": f"fresh sub-agent given only the property text and its own worktree (wave {wave})",
 "confirmed": {
  "how": "tools/confirm_mutant.sh in a scratch copy of /repo: patch applies, the four modules build, the existing suite passes with the patch, the demonstration fails with the patch and passes without",
  "demo_cmd": cmd,
  "result": "CONFIRMED"
 },
 "ran": [f"tools/try_mutant.sh seeded/{d.split('/')[-1]}/patch.diff {p}   (quick tier, against a scratch copy of /repo with the patch applied)"],
 "detected_by": det,
 "missed_before_strengthening": missed=="true"
}, open(d+"/meta.json","w"), indent=1)
E
echo kept $D
