#!/bin/bash
# usage: tools/try_mutant.sh <patch.diff> <check id>...   (optional env TIER=quick|thorough)
# Applies a seeded change to a scratch copy of /repo (never to /repo itself) and runs the given
# checks against it; evidence and replays go to a scratch directory. Prints one line per check.
set -u
PATCH=$(readlink -f "$1"); shift
T=$(mktemp -d /tmp/mut.XXXXXX)
rsync -a --exclude .git --exclude stgutgmain /repo/ $T/repo/
if ! (cd $T/repo && git apply --whitespace=nowarn "$PATCH" 2>$T/apply.err); then echo "PATCH DOES NOT APPLY: $(cat $T/apply.err)"; rm -rf $T; exit 3; fi
mkdir -p $T/out
for c in "$@"; do
  VSIM_REPO=$T/repo VSIM_OUT=$T/out TMPDIR=$T timeout 3000 /verif/bin/vsim check $c --tier ${TIER:-quick} > $T/$c.log 2>&1
  rc=$?
  echo "== $c exit=$rc $(grep -c '^VIOLATION' $T/$c.log) violation line(s)"
  grep -A2 '^VIOLATION' $T/$c.log | grep -v '^--' | head -${LINES_MAX:-9}
  grep 'HARNESS-ERROR' -A6 $T/$c.log | head -8
done
rm -rf $T
