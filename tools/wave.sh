#!/bin/bash
# usage: tools/wave.sh <worktree> <property> <letters...>  -> confirm + try each change against its property's quick check
WT=$1; P=$2; shift 2
for X in "$@"; do
  echo "=== $P-$X confirm"; CMD=$(grep -h "DEMO_CMD_$X:" $WT/NOTES.md 2>/dev/null | head -1 | sed "s/.*DEMO_CMD_$X:[ \`]*//; s/\`.*//")
  /verif/tools/confirm_mutant.sh $WT $X "$CMD" 2>&1 | tail -4
  echo "=== $P-$X try"; LINES_MAX=${LINES_MAX:-6} /verif/tools/try_mutant.sh $WT/MUT_$X.diff $P ${EXTRA:-} 2>&1 | cut -c1-400
done
