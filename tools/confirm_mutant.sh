#!/bin/bash
# usage: tools/confirm_mutant.sh <agent worktree> <A|B> [demo command, run from the scratch repo root]
# Confirms, in a scratch copy of /repo (never /repo itself): the patch applies, all modules build,
# the existing test suite passes with the patch, the demonstration fails with the patch and passes without.
set -u
WT=$1; X=$2; CMD=${3:-}
export GOPROXY=off GOSUMDB=off GOTOOLCHAIN=local
T=$(mktemp -d /tmp/conf.XXXXXX)
rsync -a --exclude .git --exclude stgutgmain /repo/ $T/with/
rsync -a --exclude .git --exclude stgutgmain /repo/ $T/without/
(cd $T/with && git apply --whitespace=nowarn $WT/MUT_$X.diff) || { echo "APPLY-FAILED"; rm -rf $T; exit 3; }
ok=1
for m in . src/free5gclib src/stgutg src/tglib; do
  (cd $T/with/$m && go build ./... >/dev/null 2>$T/build.err) || { echo "BUILD-FAILED in $m: $(head -3 $T/build.err)"; ok=0; }
  (cd $T/with/$m && timeout 900 go test -vet=off -count=1 ./... > $T/test.out 2>&1) || { echo "EXISTING-TESTS-FAILED in $m: $(grep -v 'no test files' $T/test.out | tail -3)"; ok=0; }
done
[ $ok = 1 ] && echo "builds and existing tests pass with the patch"
for d in with without; do
  if [ -d $WT/demo_$X ]; then cp -r $WT/demo_$X $T/$d/; fi
  # extra test files an agent may have placed elsewhere, listed in PLACE_$X.txt as "<file> <destdir>"
  if [ -f $WT/PLACE_$X.txt ]; then while read f dst; do cp $WT/$f $T/$d/$dst/; done < $WT/PLACE_$X.txt; fi
done
if [ -z "$CMD" ]; then
  if ls $WT/demo_$X/*_test.go >/dev/null 2>&1; then CMD="go test -vet=off -count=1 ./demo_$X/"; else CMD="go run ./demo_$X"; fi
fi
(cd $T/with && timeout 600 bash -c "$CMD" > $T/with.out 2>&1); rw=$?
(cd $T/without && timeout 600 bash -c "$CMD" > $T/without.out 2>&1); ro=$?
echo "demo with patch: exit=$rw | $(tail -2 $T/with.out | tr '\n' ' ' | cut -c1-200)"
echo "demo without   : exit=$ro | $(tail -2 $T/without.out | tr '\n' ' ' | cut -c1-200)"
if [ $ok = 1 ] && [ $rw != 0 ] && [ $ro = 0 ]; then echo "CONFIRMED"; else echo "NOT-CONFIRMED"; fi
rm -rf $T
