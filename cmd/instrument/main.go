// instrument rewrites a scratch copy of the repository's library packages for
// the controlled-concurrency rig (C20): it inserts simrt.Yield at every
// function entry and loop body, simrt.Access before every statement that
// touches a package-level variable that is mutated somewhere outside init,
// and routes Lock/Unlock calls through the simulator. The set of mutable
// variables is discovered from the tree being instrumented, so shared state
// added by a later change is picked up automatically.
//
// usage: instrument <module-root> <import-path-prefix> <pkgdir>...
package main

import (
	"bytes"
	"encoding/json"
	"fmt"
	"go/ast"
	"go/format"
	"go/parser"
	"go/token"
	"os"
	"path/filepath"
	"sort"
	"strconv"
	"strings"
)

type pkgInfo struct {
	dir     string
	path    string // import path
	name    string
	files   map[string]*ast.File
	vars    map[string]bool         // package-level variable names
	specs   map[*ast.ValueSpec]bool // their declarations
	mutated map[string]bool         // names mutated outside init
	fset    *token.FileSet
}

var pkgs = map[string]*pkgInfo{} // by import path
var siteN int

func main() {
	if len(os.Args) < 4 {
		fmt.Fprintln(os.Stderr, "usage: instrument <module-root> <import-path-prefix> <pkgdir>...")
		os.Exit(2)
	}
	root, prefix := os.Args[1], os.Args[2]
	for _, rel := range os.Args[3:] {
		dir := filepath.Join(root, rel)
		p := &pkgInfo{dir: dir, path: strings.TrimSuffix(prefix+"/"+filepath.ToSlash(rel), "/."), files: map[string]*ast.File{}, vars: map[string]bool{}, specs: map[*ast.ValueSpec]bool{}, mutated: map[string]bool{}, fset: token.NewFileSet()}
		ents, err := os.ReadDir(dir)
		if err != nil {
			fatal(err)
		}
		for _, e := range ents {
			n := e.Name()
			if e.IsDir() || !strings.HasSuffix(n, ".go") || strings.HasSuffix(n, "_test.go") {
				continue
			}
			f, err := parser.ParseFile(p.fset, filepath.Join(dir, n), nil, parser.ParseComments)
			if err != nil {
				fatal(err)
			}
			p.files[filepath.Join(dir, n)] = f
			p.name = f.Name.Name
		}
		if len(p.files) == 0 {
			continue
		}
		pkgs[p.path] = p
	}
	// pass 1: package-level variables
	for _, p := range pkgs {
		for _, f := range p.files {
			for _, d := range f.Decls {
				gd, ok := d.(*ast.GenDecl)
				if !ok || gd.Tok != token.VAR {
					continue
				}
				imports := importNames(f)
				for _, s := range gd.Specs {
					vs := s.(*ast.ValueSpec)
					p.specs[vs] = true
					ss := selfSynchronised(vs, imports)
					for _, n := range vs.Names {
						if n.Name != "_" {
							p.vars[n.Name] = true
							if ss {
								// sync.Map / Pool / Once, atomic.Value / Int64 ...: every access goes through methods
								// that synchronise. Such a variable cannot be the subject of a data race, but a use
								// of it is a natural preemption point: it gets a yield, not an access record.
								selfSync[p.path+"."+n.Name] = true
								p.mutated[n.Name] = true
							}
						}
					}
				}
			}
		}
	}
	// pass 2: which of them are mutated outside init / their own declaration
	for _, p := range pkgs {
		for _, f := range p.files {
			imports := importNames(f)
			for _, d := range f.Decls {
				fd, ok := d.(*ast.FuncDecl)
				if !ok || fd.Body == nil || (fd.Name.Name == "init" && fd.Recv == nil) {
					continue
				}
				ast.Inspect(fd.Body, func(n ast.Node) bool {
					switch s := n.(type) {
					case *ast.AssignStmt:
						if s.Tok != token.DEFINE {
							for _, l := range s.Lhs {
								markMut(p, imports, l)
							}
						}
					case *ast.IncDecStmt:
						markMut(p, imports, s.X)
					case *ast.UnaryExpr:
						if s.Op == token.AND {
							markMut(p, imports, s.X)
						}
					case *ast.RangeStmt:
						if s.Tok == token.ASSIGN {
							if s.Key != nil {
								markMut(p, imports, s.Key)
							}
							if s.Value != nil {
								markMut(p, imports, s.Value)
							}
						}
					case *ast.CallExpr:
						// a method call on a package-level value of array/struct kind may mutate it through a
						// pointer receiver; without types, treat calls named like mutators conservatively
						if sel, ok := s.Fun.(*ast.SelectorExpr); ok {
							switch sel.Sel.Name {
							case "Store", "Add", "Set", "Reset", "Write", "Delete", "Swap", "CompareAndSwap", "LoadOrStore":
								markMut(p, imports, sel.X)
							}
						}
					}
					return true
				})
			}
		}
	}
	// pass 3: rewrite
	report := map[string][]string{}
	for _, p := range pkgs {
		var mv []string
		for v := range p.mutated {
			mv = append(mv, v)
		}
		sort.Strings(mv)
		report[p.path] = mv
		for path, f := range p.files {
			if rewrite(p, f) {
				addImport(f)
			}
			var buf bytes.Buffer
			if err := format.Node(&buf, p.fset, f); err != nil {
				fatal(fmt.Errorf("%s: %v", path, err))
			}
			if err := os.WriteFile(path, buf.Bytes(), 0644); err != nil {
				fatal(err)
			}
		}
	}
	out := map[string]interface{}{"mutable_package_variables": report, "yield_sites": siteN}
	b, _ := json.MarshalIndent(out, "", " ")
	fmt.Println(string(b))
}

func fatal(err error) {
	fmt.Fprintln(os.Stderr, "instrument:", err)
	os.Exit(2)
}

func importNames(f *ast.File) map[string]string {
	m := map[string]string{}
	for _, im := range f.Imports {
		path, _ := strconv.Unquote(im.Path.Value)
		name := path[strings.LastIndex(path, "/")+1:]
		if im.Name != nil {
			name = im.Name.Name
		}
		m[name] = path
	}
	return m
}

// rootVar returns (package, variable) if the expression is rooted at a package-level variable of an instrumented package.
func rootVar(p *pkgInfo, imports map[string]string, e ast.Expr) (*pkgInfo, string) {
	for {
		switch x := e.(type) {
		case *ast.ParenExpr:
			e = x.X
		case *ast.IndexExpr:
			e = x.X
		case *ast.SliceExpr:
			e = x.X
		case *ast.StarExpr:
			e = x.X
		case *ast.SelectorExpr:
			if id, ok := x.X.(*ast.Ident); ok && id.Obj == nil {
				if path, isPkg := imports[id.Name]; isPkg {
					if q := pkgs[path]; q != nil && q.vars[x.Sel.Name] {
						return q, x.Sel.Name
					}
					return nil, ""
				}
			}
			e = x.X
		case *ast.Ident:
			if !p.vars[x.Name] {
				return nil, ""
			}
			if x.Obj != nil {
				vs, ok := x.Obj.Decl.(*ast.ValueSpec)
				if !ok || !p.specs[vs] {
					return nil, "" // shadowed by a local declaration
				}
			}
			return p, x.Name
		default:
			return nil, ""
		}
	}
}

// selfSynchronised tells whether a package-level variable is declared with a type of package sync or
// sync/atomic (by its type expression, or by a composite literal / new() of such a type).
func selfSynchronised(vs *ast.ValueSpec, imports map[string]string) bool {
	isSync := func(e ast.Expr) bool {
		for {
			switch x := e.(type) {
			case *ast.StarExpr:
				e = x.X
				continue
			case *ast.SelectorExpr:
				if id, ok := x.X.(*ast.Ident); ok {
					path := imports[id.Name]
					return path == "sync" || path == "sync/atomic"
				}
			}
			return false
		}
	}
	if vs.Type != nil {
		return isSync(vs.Type)
	}
	for _, v := range vs.Values {
		switch x := v.(type) {
		case *ast.CompositeLit:
			if x.Type != nil && isSync(x.Type) {
				return true
			}
		case *ast.UnaryExpr:
			if cl, ok := x.X.(*ast.CompositeLit); ok && cl.Type != nil && isSync(cl.Type) {
				return true
			}
		}
	}
	return false
}

// atomicCall tells whether a call is a function of sync/atomic (atomic.AddInt64(&v, 1) ...): the
// variable it is handed is accessed atomically there.
func atomicCall(c *ast.CallExpr, imports map[string]string) bool {
	if sel, ok := c.Fun.(*ast.SelectorExpr); ok {
		if id, ok := sel.X.(*ast.Ident); ok && id.Obj == nil {
			return imports[id.Name] == "sync/atomic"
		}
	}
	return false
}

var selfSync = map[string]bool{}

func markMut(p *pkgInfo, imports map[string]string, e ast.Expr) {
	if q, v := rootVar(p, imports, e); q != nil {
		q.mutated[v] = true
	}
}

func call(fn string, args ...ast.Expr) *ast.ExprStmt {
	return &ast.ExprStmt{X: &ast.CallExpr{Fun: &ast.SelectorExpr{X: ast.NewIdent("simrt"), Sel: ast.NewIdent(fn)}, Args: args}}
}

func lit(s string) ast.Expr { return &ast.BasicLit{Kind: token.STRING, Value: strconv.Quote(s)} }

func yieldStmt() ast.Stmt {
	siteN++
	return call("Yield", &ast.BasicLit{Kind: token.INT, Value: strconv.Itoa(siteN)})
}

// accessesOf lists the mutable package variables an expression-level node touches.
func accessesOf(p *pkgInfo, imports map[string]string, n ast.Node, write map[string]bool, read map[string]bool) {
	if n == nil {
		return
	}
	lhs := map[ast.Expr]bool{}
	switch s := n.(type) {
	case *ast.AssignStmt:
		if s.Tok != token.DEFINE {
			for _, l := range s.Lhs {
				lhs[l] = true
			}
		}
	case *ast.IncDecStmt:
		lhs[s.X] = true
	}
	for l := range lhs {
		if q, v := rootVar(p, imports, l); q != nil && q.mutated[v] {
			write[q.path+"."+v] = true
		}
	}
	ast.Inspect(n, func(m ast.Node) bool {
		switch x := m.(type) {
		case *ast.FuncLit:
			return false
		case *ast.CallExpr:
			if atomicCall(x, imports) {
				// an atomic access is not one side of a data race; it is a preemption point
				for _, a := range x.Args {
					if u, ok := a.(*ast.UnaryExpr); ok && u.Op == token.AND {
						if q, v := rootVar(p, imports, u.X); q != nil && q.mutated[v] {
							read["~"+q.path+"."+v] = true
						}
					}
				}
				return false
			}
		case *ast.BlockStmt:
			return m == n
		case *ast.UnaryExpr:
			if x.Op == token.AND {
				if q, v := rootVar(p, imports, x.X); q != nil && q.mutated[v] {
					write[q.path+"."+v] = true
				}
			}
		case *ast.SelectorExpr:
			if q, v := rootVar(p, imports, x); q != nil && q.mutated[v] {
				read[q.path+"."+v] = true
				return false
			}
		case *ast.Ident:
			if q, v := rootVar(p, imports, x); q != nil && q.mutated[v] {
				read[q.path+"."+v] = true
			}
		}
		return true
	})
}

// headOf returns the part of a statement that executes before its nested blocks.
func headOf(s ast.Stmt) []ast.Node {
	switch x := s.(type) {
	case *ast.IfStmt:
		return []ast.Node{x.Init, x.Cond}
	case *ast.ForStmt:
		return []ast.Node{x.Init, x.Cond, x.Post}
	case *ast.RangeStmt:
		return []ast.Node{x.X}
	case *ast.SwitchStmt:
		return []ast.Node{x.Init, x.Tag}
	case *ast.TypeSwitchStmt:
		return []ast.Node{x.Init, x.Assign}
	case *ast.BlockStmt, *ast.SelectStmt, *ast.LabeledStmt:
		return nil
	}
	return []ast.Node{s}
}

func lockCall(s ast.Stmt) (recv ast.Expr, name string, isDefer bool) {
	var c *ast.CallExpr
	switch x := s.(type) {
	case *ast.ExprStmt:
		c, _ = x.X.(*ast.CallExpr)
	case *ast.DeferStmt:
		c, isDefer = x.Call, true
	}
	if c == nil || len(c.Args) != 0 {
		return nil, "", false
	}
	sel, ok := c.Fun.(*ast.SelectorExpr)
	if !ok {
		return nil, "", false
	}
	switch sel.Sel.Name {
	case "Lock", "RLock", "Unlock", "RUnlock":
		return sel.X, sel.Sel.Name, isDefer
	}
	return nil, "", false
}

func exprString(p *pkgInfo, e ast.Expr) string {
	var b bytes.Buffer
	format.Node(&b, p.fset, e)
	return p.path + ":" + b.String()
}

func rewrite(p *pkgInfo, f *ast.File) bool {
	imports := importNames(f)
	changed := false
	var doList func(list []ast.Stmt) []ast.Stmt
	var doStmt func(s ast.Stmt)
	doList = func(list []ast.Stmt) []ast.Stmt {
		var out []ast.Stmt
		for _, s := range list {
			w, r := map[string]bool{}, map[string]bool{}
			nodes := headOf(s)
			for _, n := range nodes {
				if n != nil && !isNilNode(n) {
					accessesOf(p, imports, n, w, r)
				}
			}
			var names []string
			for v := range r {
				names = append(names, v)
			}
			for v := range w {
				if !r[v] {
					names = append(names, v)
				}
			}
			sort.Strings(names)
			for _, v := range names {
				if strings.HasPrefix(v, "~") || selfSync[v] {
					out = append(out, call("SyncPoint", lit(strings.TrimPrefix(v, "~"))))
					changed = true
					continue
				}
				wr := "false"
				if w[v] {
					wr = "true"
				}
				out = append(out, call("Access", lit(v), ast.NewIdent(wr)))
				changed = true
			}
			if recv, name, isDefer := lockCall(s); recv != nil {
				key := exprString(p, recv)
				changed = true
				switch {
				case name == "Lock" || name == "RLock":
					out = append(out, call("BeforeLock", lit(key)), s)
				case isDefer:
					d := s.(*ast.DeferStmt)
					body := &ast.BlockStmt{List: []ast.Stmt{&ast.ExprStmt{X: d.Call}, call("AfterUnlock", lit(key))}}
					out = append(out, &ast.DeferStmt{Call: &ast.CallExpr{Fun: &ast.FuncLit{Type: &ast.FuncType{Params: &ast.FieldList{}}, Body: body}}})
				default:
					out = append(out, s, call("AfterUnlock", lit(key)))
				}
				continue
			}
			doStmt(s)
			out = append(out, s)
		}
		return out
	}
	doBlock := func(b *ast.BlockStmt, yield bool) {
		if b == nil {
			return
		}
		b.List = doList(b.List)
		if yield {
			b.List = append([]ast.Stmt{yieldStmt()}, b.List...)
			changed = true
		}
	}
	doStmt = func(s ast.Stmt) {
		switch x := s.(type) {
		case *ast.BlockStmt:
			doBlock(x, false)
		case *ast.IfStmt:
			doBlock(x.Body, false)
			if x.Else != nil {
				doStmt(x.Else)
			}
		case *ast.ForStmt:
			doBlock(x.Body, true)
		case *ast.RangeStmt:
			doBlock(x.Body, true)
		case *ast.SwitchStmt:
			for _, c := range x.Body.List {
				cc := c.(*ast.CaseClause)
				cc.Body = doList(cc.Body)
			}
		case *ast.TypeSwitchStmt:
			for _, c := range x.Body.List {
				cc := c.(*ast.CaseClause)
				cc.Body = doList(cc.Body)
			}
		case *ast.SelectStmt:
			for _, c := range x.Body.List {
				cc := c.(*ast.CommClause)
				cc.Body = doList(cc.Body)
			}
		case *ast.LabeledStmt:
			doStmt(x.Stmt)
		}
		// function literals inside the statement
		ast.Inspect(s, func(n ast.Node) bool {
			if fl, ok := n.(*ast.FuncLit); ok && fl.Body != nil && !instrumented[fl] {
				instrumented[fl] = true
				doBlock(fl.Body, false)
				return false
			}
			return true
		})
	}
	for _, d := range f.Decls {
		fd, ok := d.(*ast.FuncDecl)
		if !ok || fd.Body == nil {
			continue
		}
		if fd.Name.Name == "init" && fd.Recv == nil {
			continue
		}
		doBlock(fd.Body, true)
	}
	return changed
}

var instrumented = map[*ast.FuncLit]bool{}

func isNilNode(n ast.Node) bool {
	switch x := n.(type) {
	case ast.Expr:
		return x == nil
	case ast.Stmt:
		return x == nil
	}
	return false
}

func addImport(f *ast.File) {
	for _, im := range f.Imports {
		if im.Path.Value == `"verifsim/simrt"` {
			return
		}
	}
	spec := &ast.ImportSpec{Path: &ast.BasicLit{Kind: token.STRING, Value: `"verifsim/simrt"`}}
	f.Imports = append(f.Imports, spec)
	for _, d := range f.Decls {
		if gd, ok := d.(*ast.GenDecl); ok && gd.Tok == token.IMPORT {
			gd.Specs = append(gd.Specs, spec)
			if !gd.Lparen.IsValid() {
				gd.Lparen = gd.Pos()
				gd.Rparen = gd.End()
			}
			return
		}
	}
	gd := &ast.GenDecl{Tok: token.IMPORT, Specs: []ast.Spec{spec}}
	f.Decls = append([]ast.Decl{gd}, f.Decls...)
}
