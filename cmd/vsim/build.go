package main

import (
	"fmt"
	"os"
	"os/exec"
	"path/filepath"
	"strings"
	"sync"
)

// Env is the scratch build of /repo's current working tree.
type Env struct {
	Scratch string
	Src     string // scratch copy of /repo
	SimBin  string // real main() + shims, -tags faketime
	mu      sync.Mutex
	rigs    map[string]string
}

// repoDir is the tree under test: /repo, unless VSIM_REPO names a scratch worktree (used when
// a seeded change is tried without touching /repo while background runs are reading it).
var repoDir = func() string {
	if d := os.Getenv("VSIM_REPO"); d != "" {
		return d
	}
	return "/repo"
}()

func verifDir() string {
	if d := os.Getenv("VERIF_DIR"); d != "" {
		return d
	}
	return "/verif"
}

// outDir is where evidence and replay files go: /verif, unless VSIM_OUT redirects them (trying a
// seeded change must not overwrite the evidence of the unchanged tree).
func outDir() string {
	if d := os.Getenv("VSIM_OUT"); d != "" {
		return d
	}
	return verifDir()
}

func goEnv() []string {
	env := os.Environ()
	env = append(env, "CGO_ENABLED=0", "GOWORK=off", "GOFLAGS=-mod=mod", "GOPROXY=off", "GOSUMDB=off", "GOTOOLCHAIN=local")
	return env
}

func runCmd(dir string, env []string, name string, args ...string) error {
	cmd := exec.Command(name, args...)
	cmd.Dir = dir
	cmd.Env = env
	out, err := cmd.CombinedOutput()
	if err != nil {
		return fmt.Errorf("%s %s: %v\n%s", name, strings.Join(args, " "), err, out)
	}
	return nil
}

const simReplaces = `
replace github.com/ishidawataru/sctp => %[1]s/simlib/shim/sctp
replace github.com/Rotchamar/xdp_gtp => %[1]s/simlib/shim/xdp_gtp
replace github.com/cilium/ebpf => %[1]s/simlib/shim/ebpf
replace verifsim => %[1]s/simlib
`

// Prepare copies /repo's working tree to a scratch directory and builds the
// whole-system simulation binary from it.
func Prepare() (*Env, error) {
	base := os.Getenv("TMPDIR")
	if base == "" {
		base = "/tmp"
	}
	e := &Env{Scratch: filepath.Join(base, fmt.Sprintf("verif.%d", os.Getpid())), rigs: map[string]string{}}
	e.Src = filepath.Join(e.Scratch, "src")
	os.RemoveAll(e.Scratch)
	for _, d := range []string{e.Src, filepath.Join(e.Scratch, "bin"), filepath.Join(e.Scratch, "run")} {
		if err := os.MkdirAll(d, 0755); err != nil {
			return nil, err
		}
	}
	if err := runCmd("/", nil, "rsync", "-a", "--exclude", ".git", "--exclude", "stgutgmain", repoDir+"/", e.Src+"/"); err != nil {
		return e, err
	}
	mod, err := os.ReadFile(filepath.Join(e.Src, "go.mod"))
	if err != nil {
		return e, err
	}
	modfile := filepath.Join(e.Scratch, "go.sim.mod")
	if err := os.WriteFile(modfile, []byte(string(mod)+fmt.Sprintf(simReplaces, verifDir())), 0644); err != nil {
		return e, err
	}
	sum, _ := os.ReadFile(filepath.Join(e.Src, "go.sum"))
	os.WriteFile(filepath.Join(e.Scratch, "go.sim.sum"), sum, 0644)
	e.SimBin = filepath.Join(e.Scratch, "bin", "stgutg-sim")
	if err := runCmd(e.Src, goEnv(), "go", "build", "-trimpath", "-tags", "faketime", "-modfile="+modfile, "-o", e.SimBin, "."); err != nil {
		return e, fmt.Errorf("building the emulator from /repo failed: %v", err)
	}
	return e, nil
}

const rigMod = `module verifrigs

go 1.21

require (
	free5gclib v0.0.0
	stgutg v0.0.0
	tglib v0.0.0
	verifsim v0.0.0
	github.com/ishidawataru/sctp v0.0.0-20210707070123-9a39160e9062
	golang.org/x/sys v0.14.1-0.20231108175955-e4099bfacb8c
)

replace (
	free5gclib => %[2]s/src/free5gclib
	stgutg => %[2]s/src/stgutg
	tglib => %[2]s/src/tglib
	verifsim => %[1]s/simlib
	github.com/ishidawataru/sctp => %[1]s/simlib/shim/sctp
	github.com/Rotchamar/xdp_gtp => %[1]s/simlib/shim/xdp_gtp
	github.com/cilium/ebpf => %[1]s/simlib/shim/ebpf
)
`

// BuildRig builds /verif/rigs/<name> against the scratch copy of the
// repository's packages. srcOverride, if not empty, replaces the scratch
// source root (used for the instrumented copy of C20).
func (e *Env) BuildRig(name string, faketime bool, srcOverride string) (string, error) {
	e.mu.Lock()
	defer e.mu.Unlock()
	key := name + "|" + srcOverride
	if b, ok := e.rigs[key]; ok {
		return b, nil
	}
	src := e.Src
	if srcOverride != "" {
		src = srcOverride
	}
	rdir := filepath.Join(e.Scratch, "rigs-"+name)
	os.RemoveAll(rdir)
	if err := runCmd("/", nil, "rsync", "-a", filepath.Join(verifDir(), "rigs")+"/", rdir+"/"); err != nil {
		return "", err
	}
	if err := os.WriteFile(filepath.Join(rdir, "go.mod"), []byte(fmt.Sprintf(rigMod, verifDir(), src)), 0644); err != nil {
		return "", err
	}
	sum, _ := os.ReadFile(filepath.Join(e.Src, "go.sum"))
	os.WriteFile(filepath.Join(rdir, "go.sum"), sum, 0644)
	bin := filepath.Join(e.Scratch, "bin", "rig-"+name)
	args := []string{"build", "-trimpath"} // scratch paths differ from run to run: without -trimpath nothing is ever found in the build cache
	if faketime {
		args = append(args, "-tags", "faketime")
	}
	args = append(args, "-o", bin, "./"+name)
	if err := runCmd(rdir, goEnv(), "go", args...); err != nil {
		return "", fmt.Errorf("building rig %s against /repo failed: %v", name, err)
	}
	e.rigs[key] = bin
	return bin, nil
}

func (e *Env) Cleanup() {
	if e != nil && e.Scratch != "" && os.Getenv("VSIM_KEEP") == "" {
		os.RemoveAll(e.Scratch)
	}
}
