package main

import (
	"bufio"
	"bytes"
	"crypto/sha256"
	"encoding/binary"
	"encoding/hex"
	"encoding/json"
	"fmt"
	"os"
	"os/exec"
	"path/filepath"
	"strings"
	"syscall"
	"time"

	"verifsim/scn"
	"verifsim/world"
)

// Line is one chunk of child output with the simulated time it was written at.
type Line struct {
	T    int64
	Text string
}

// Run is the record of one simulated execution.
type Run struct {
	Scn      *scn.Scenario
	Exit     int
	Signal   string
	TimedOut bool
	Stdout   []Line
	Stderr   []Line
	Events   []world.Event
	RawLog   []byte
	WallMs   float64
	CPUMs    float64
	NoLog    bool
	Progress []byte // rig-specific progress marker file (<log>.progress)
}

func (r *Run) StdoutText() string {
	var b strings.Builder
	for _, l := range r.Stdout {
		b.WriteString(l.Text)
	}
	return b.String()
}

func (r *Run) StderrText() string {
	var b strings.Builder
	for _, l := range r.Stderr {
		b.WriteString(l.Text)
	}
	return b.String()
}

// LogHash identifies the execution: event log plus de-framed stdout and exit status.
func (r *Run) LogHash() string {
	h := sha256.New()
	h.Write(r.RawLog)
	h.Write([]byte(r.StdoutText()))
	fmt.Fprintf(h, "exit=%d", r.Exit)
	return hex.EncodeToString(h.Sum(nil))[:16]
}

// SimEnd returns the simulated time of the last event (ns).
func (r *Run) SimEnd() int64 {
	var t int64
	if n := len(r.Events); n > 0 {
		t = r.Events[n-1].T
	}
	for _, l := range r.Stdout {
		if l.T > t {
			t = l.T
		}
	}
	return t
}

const faketimeEpoch = 1257894000000000000 // 2009-11-10 23:00:00 UTC in ns

// deframe parses the playground framing the faketime runtime puts on fd 1/2.
func deframe(b []byte) []Line {
	var out []Line
	for len(b) > 0 {
		if len(b) >= 16 && b[0] == 0 && b[1] == 0 && b[2] == 'P' && b[3] == 'B' {
			t := int64(binary.BigEndian.Uint64(b[4:12])) - faketimeEpoch
			n := int(binary.BigEndian.Uint32(b[12:16]))
			if 16+n > len(b) {
				n = len(b) - 16
			}
			out = append(out, Line{T: t, Text: string(b[16 : 16+n])})
			b = b[16+n:]
			continue
		}
		// unframed bytes (should not happen): keep them
		i := bytes.Index(b[1:], []byte{0, 0, 'P', 'B'})
		if i < 0 {
			out = append(out, Line{T: -1, Text: string(b)})
			break
		}
		out = append(out, Line{T: -1, Text: string(b[:i+1])})
		b = b[i+1:]
	}
	return out
}

func yamlQuote(s string) string {
	var b strings.Builder
	b.WriteByte('"')
	for i := 0; i < len(s); i++ {
		c := s[i]
		switch {
		case c == '"' || c == '\\':
			b.WriteByte('\\')
			b.WriteByte(c)
		case c < 0x20 || c >= 0x7f:
			fmt.Fprintf(&b, "\\x%02x", c)
		default:
			b.WriteByte(c)
		}
	}
	b.WriteByte('"')
	return b.String()
}

// ConfigYAML renders the configuration file the documented way.
func ConfigYAML(c scn.Config) string {
	gnb, _ := hex.DecodeString(c.GnbIDHex)
	var b strings.Builder
	b.WriteString("info:\n  version: 0.9.0\n  description: STGUTG configuration file\n\nconfiguration:\n")
	w := func(k, v string) { fmt.Fprintf(&b, "  %s: %s\n", k, v) }
	ip := func(v string) string { // an IPv6 literal needs quotes in YAML
		if strings.Contains(v, ":") {
			return yamlQuote(v)
		}
		return v
	}
	w("amf_ngap_ip", ip(c.AmfNgapIP))
	w("amf_ngap_port", fmt.Sprint(c.AmfNgapPort))
	w("gnb_gtp_ip", ip(c.GnbGtpIP))
	w("stg_ngap_ip", ip(c.StgNgapIP))
	w("stg_ngap_port", fmt.Sprint(c.StgNgapPort))
	w("initial_imsi", yamlQuote(c.IMSI))
	w("mcc", yamlQuote(c.MCC))
	w("mnc", yamlQuote(c.MNC))
	w("gnb_id", yamlQuote(string(gnb)))
	w("gnb_bitlength", fmt.Sprint(c.GnbBitLength))
	w("gnb_name", yamlQuote(c.GnbName))
	w("k", yamlQuote(c.K))
	w("opc", yamlQuote(c.OPC))
	w("op", yamlQuote(c.OP))
	w("sst", fmt.Sprint(c.SST))
	w("sd", yamlQuote(c.SD))
	w("downlink_iface", yamlQuote(c.DLIface))
	w("uplink_iface", yamlQuote(c.ULIface))
	w("ue_number", fmt.Sprint(c.UENumber))
	w("ue_registration", fmt.Sprint(c.NReg))
	w("ue_pdu", fmt.Sprint(c.NPdu))
	w("ue_service", fmt.Sprint(c.NSvc))
	w("ue_pdu_release", fmt.Sprint(c.NRel))
	w("ue_deregistration", fmt.Sprint(c.NDereg))
	return b.String()
}

// The watchdog is a budget of CPU time, not of wall-clock time: a child that loops forever burns
// CPU and is stopped after cpuBudget seconds of it, however loaded the machine is, while an honest
// child that is merely starved of CPU by other processes is never mistaken for a hang. The
// wall-clock backstop only catches a child that neither computes nor ends (the fake-clock runtime
// reports "all goroutines are asleep" for that by itself, so it is not expected to fire).
const (
	cpuBudget     = 12 * time.Second
	wallBackstop  = 5 * time.Minute
	longCPUBudget = 40 * time.Minute
	longBackstop  = 3 * time.Hour
)

// procCPU returns user+system CPU time consumed so far by process pid (from /proc/<pid>/stat).
func procCPU(pid int) time.Duration {
	b, err := os.ReadFile(fmt.Sprintf("/proc/%d/stat", pid))
	if err != nil {
		return 0
	}
	i := bytes.LastIndexByte(b, ')')
	if i < 0 {
		return 0
	}
	f := strings.Fields(string(b[i+1:]))
	if len(f) < 13 {
		return 0
	}
	var ut, st int64
	fmt.Sscan(f[11], &ut)
	fmt.Sscan(f[12], &st)
	return time.Duration(ut+st) * (time.Second / 100) // USER_HZ is 100 on Linux
}

// RunBin executes a simulation binary on one scenario in worker directory w.
func (e *Env) RunBin(bin string, worker int, s *scn.Scenario) *Run {
	dir := filepath.Join(e.Scratch, "run", fmt.Sprintf("w%d", worker))
	os.MkdirAll(dir, 0755)
	r := &Run{Scn: s}
	sb, err := json.Marshal(s)
	if err != nil {
		panic(err)
	}
	yaml := ConfigYAML(s.Config)
	if v, ok := s.Rig["config_yaml"].(string); ok {
		yaml = v
	}
	must(os.WriteFile(filepath.Join(dir, "config.yaml"), []byte(yaml), 0644))
	must(os.WriteFile(filepath.Join(dir, "scenario.json"), sb, 0644))
	logPath := filepath.Join(dir, "log.jsonl")
	os.Remove(logPath)
	os.Remove(logPath + ".progress")
	budget, backstop := cpuBudget, wallBackstop
	if long, _ := s.Rig["long"].(bool); long {
		budget, backstop = longCPUBudget, longBackstop
	}
	if v, ok := s.Rig["cpu_s"].(float64); ok && v > 0 { // rigs that batch much work per process state their own budget
		budget = time.Duration(v) * time.Second
	}
	runDir := dir
	if ff, _ := s.Rig["fs_fault"].(string); ff != "" {
		// Disk faults for the library's log files. The free5gc packages open <root>/log/free5gc.log and
		// <root>/log/lib/<package>.log when they are initialised, <root> being found from the location
		// of the executable; the child gets a root of its own (through a symbolic link to the binary) in
		// which the named files cannot be opened or created: a directory stands where the file should be.
		root := filepath.Join(dir, "fsroot")
		os.RemoveAll(root)
		must(os.MkdirAll(filepath.Join(root, "bin"), 0755))
		must(os.MkdirAll(filepath.Join(root, "run"), 0755))
		link := filepath.Join(root, "bin", filepath.Base(bin))
		must(os.Symlink(bin, link))
		bin, runDir = link, filepath.Join(root, "run")
		must(os.WriteFile(filepath.Join(runDir, "config.yaml"), []byte(yaml), 0644))
		lib := filepath.Join(root, "log", "lib")
		block := func(names ...string) {
			for _, n := range names {
				must(os.MkdirAll(filepath.Join(lib, n), 0755))
			}
		}
		switch ff {
		case "aper-log":
			block("aper.log")
		case "lib-logs":
			block("aper.log", "ngap.log", "nas.log")
		case "free5gc-log":
			must(os.MkdirAll(filepath.Join(root, "log", "free5gc.log"), 0755))
		case "all-logs":
			block("aper.log", "ngap.log", "nas.log")
			must(os.MkdirAll(filepath.Join(root, "log", "free5gc.log"), 0755))
		case "log-dir": // "log" is a file: no directory can be made below it, every open fails
			must(os.WriteFile(filepath.Join(root, "log"), nil, 0644))
		default:
			harnessFail("unknown fs_fault %q", ff)
		}
	}
	cmd := exec.Command(bin, s.Args...)
	cmd.Dir = runDir
	// GOMAXPROCS=1: with several Ps the faketime runtime can livelock under load (measured: 484 of
	// 1500 identical runs spun until the watchdog with GOMAXPROCS=16, none with 1). The emulator is
	// a single goroutine, so nothing is lost.
	gmp := "1"
	if v := os.Getenv("VSIM_CHILD_GOMAXPROCS"); v != "" {
		gmp = v
	}
	cmd.Env = []string{"VSIM_SCENARIO=" + filepath.Join(dir, "scenario.json"), "VSIM_LOG=" + logPath, "HOME=" + dir, "PATH=/usr/bin:/bin", "GOMAXPROCS=" + gmp}
	var so, se bytes.Buffer
	cmd.Stdout, cmd.Stderr = &so, &se
	t0 := time.Now()
	err = cmd.Start()
	if err == nil {
		done := make(chan error, 1)
		go func() { done <- cmd.Wait() }()
		tick := time.NewTimer(time.Second)
	wait:
		for {
			select {
			case err = <-done:
				break wait
			case <-tick.C:
				if cpu := procCPU(cmd.Process.Pid); cpu > budget || time.Since(t0) > backstop {
					r.TimedOut = true
					r.CPUMs = float64(cpu.Milliseconds())
					cmd.Process.Kill()
					err = <-done
					break wait
				}
				tick.Reset(250 * time.Millisecond)
			}
		}
		tick.Stop()
	}
	r.WallMs = float64(time.Since(t0).Microseconds()) / 1000
	if err != nil {
		if ee, ok := err.(*exec.ExitError); ok {
			r.Exit = ee.ExitCode()
			if ws, ok := ee.Sys().(syscall.WaitStatus); ok && ws.Signaled() {
				r.Signal = ws.Signal().String()
			}
		} else {
			r.Exit = -1
			r.Stderr = append(r.Stderr, Line{T: -1, Text: "spawn: " + err.Error()})
		}
	}
	if cmd.ProcessState != nil && !r.TimedOut {
		r.CPUMs = float64((cmd.ProcessState.UserTime() + cmd.ProcessState.SystemTime()).Milliseconds())
	}
	r.Stdout = deframe(so.Bytes())
	r.Stderr = append(r.Stderr, deframe(se.Bytes())...)
	r.RawLog, _ = os.ReadFile(logPath)
	r.Progress, _ = os.ReadFile(logPath + ".progress")
	if len(r.RawLog) == 0 {
		r.NoLog = true
	}
	sc := bufio.NewScanner(bytes.NewReader(r.RawLog))
	sc.Buffer(make([]byte, 1<<20), 1<<26)
	for sc.Scan() {
		var ev world.Event
		if json.Unmarshal(sc.Bytes(), &ev) == nil {
			r.Events = append(r.Events, ev)
		}
	}
	return r
}

func must(err error) {
	if err != nil {
		panic(err)
	}
}
