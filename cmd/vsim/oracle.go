package main

import (
	"crypto/sha256"
	"encoding/hex"
	"encoding/json"
	"fmt"
	"regexp"
	"sort"
	"strings"

	"verifsim/ref/core"
	"verifsim/scn"
)

// Finding is one violated rule in one run, identified by a stable key.
type Finding struct {
	Key    string `json:"key"`
	Detail string `json:"detail"`
	UE     int    `json:"ue"`
}

func (f Finding) Rule() string { return strings.SplitN(f.Key, "@", 2)[0] }

func addFinding(fs []Finding, key, detail string, ue int) []Finding {
	for _, f := range fs {
		if f.Key == key {
			return fs
		}
	}
	return append(fs, Finding{Key: key, Detail: detail, UE: ue})
}

var panicFrame = regexp.MustCompile(`(?m)^((?:stgutg|tglib|free5gclib|main|stgutgmain)[^\s(]*)\(`)

// crashSite extracts a stable name for a Go panic / fatal error from stderr.
func crashSite(stderr string) (kind, site string) {
	switch {
	case strings.Contains(stderr, "all goroutines are asleep - deadlock!"):
		return "deadlock", "runtime"
	case strings.Contains(stderr, "panic:") || strings.Contains(stderr, "fatal error:") || strings.Contains(stderr, "[signal SIGSEGV"):
		kind = "panic"
		if strings.Contains(stderr, "stack overflow") {
			kind = "stack-overflow"
		} else if strings.Contains(stderr, "out of memory") {
			kind = "out-of-memory"
		}
		if m := panicFrame.FindStringSubmatch(stderr); m != nil {
			s := m[1]
			if i := strings.LastIndex(s, "/"); i >= 0 {
				s = s[i+1:]
			}
			return kind, s
		}
		return kind, "unknown"
	}
	return "", ""
}

// lastSite is the label of the last uplink message before the end of the run.
func lastSite(r *Run) string {
	site := "start"
	for _, e := range r.Events {
		switch e.Ev {
		case "ul":
			site = e.Label
		case "read":
			if e.Label != "" {
				site = "after:" + e.Label
			}
		}
	}
	return site
}

type ueTrack struct {
	everRegistered   bool
	est, svc, rel, d int
	state            string
}

func track(r *Run) map[int]*ueTrack {
	t := map[int]*ueTrack{}
	for _, e := range r.Events {
		if e.Ev != "ul" || e.UE < 0 || e.Info == nil {
			continue
		}
		st, ok := e.Info["st"].(map[string]interface{})
		if !ok {
			continue
		}
		u := t[e.UE]
		if u == nil {
			u = &ueTrack{}
			t[e.UE] = u
		}
		u.state, _ = st["state"].(string)
		if u.state == "REGISTERED" {
			u.everRegistered = true
		}
		num := func(k string) int { f, _ := st[k].(float64); return int(f) }
		u.est, u.svc, u.rel, u.d = num("est"), num("svc"), num("rel"), num("dereg")
	}
	return t
}

// ruleFindings converts the reference core's verdicts into findings.
func ruleFindings(r *Run) []Finding {
	var fs []Finding
	for _, e := range r.Events {
		if e.Ev != "ul" {
			continue
		}
		for _, v := range e.Viol {
			rule := v.Rule
			if strings.HasPrefix(rule, "timing.") && r.Scn.Lat.Class == "slow" {
				// an outcome that overtakes its command because the core is slower than the emulator's
				// fixed waits is a known limitation; against a prompt core the same rule is a violation
				rule += "[slow-core]"
			}
			fs = addFinding(fs, rule+"@"+v.Site, v.Detail, e.UE)
		}
	}
	return fs
}

// processFindings judges how the process ended in a fault-free run.
// expectEnd: "banner" (test mode), "block" (traffic mode), "none" (no procedure must start).
func processFindings(r *Run, expectEnd string) []Finding {
	var fs []Finding
	stderr := r.StderrText()
	stdout := r.StdoutText()
	site := lastSite(r)
	if r.TimedOut {
		return addFinding(fs, "watchdog@"+site, "the process was still running after the wall-clock watchdog (CPU-bound loop)", -1)
	}
	for _, e := range r.Events {
		if e.Ev == "hang" {
			fs = addFinding(fs, "hang@"+site, "the emulator blocked in Read although the network had nothing more to send", -1)
		}
		if e.Ev == "spin" {
			fs = addFinding(fs, "hang.spin@"+site, fmt.Sprintf("the emulator never ends: %v", e.Info["reason"]), -1)
		}
	}
	kind, where := crashSite(stderr)
	switch expectEnd {
	case "banner":
		if kind == "deadlock" {
			fs = addFinding(fs, "deadlock@"+site, "all goroutines asleep", -1)
		} else if kind != "" {
			fs = addFinding(fs, kind+"@"+where, firstLines(stderr, 6), -1)
		} else if r.Exit != 0 && len(fs) == 0 {
			fs = addFinding(fs, "exit.status@"+site, fmt.Sprintf("exit status %d; stdout tail: %s", r.Exit, tail(stdout, 200)), -1)
		} else if r.Exit == 0 && !strings.Contains(stdout, ">> All tests finished") {
			fs = addFinding(fs, "banner.missing@end", "exit status 0 without the completion banner", -1)
		}
	case "block":
		if kind == "deadlock" {
			// expected: main blocks forever on its never-signalled channel
		} else if kind != "" {
			fs = addFinding(fs, kind+"@"+where, firstLines(stderr, 6), -1)
		} else if len(fs) == 0 {
			fs = addFinding(fs, "exit.status@"+site, fmt.Sprintf("traffic mode ended with exit status %d instead of waiting for a signal; stdout tail: %s", r.Exit, tail(stdout, 200)), -1)
		}
	}
	return fs
}

func firstLines(s string, n int) string {
	l := strings.Split(s, "\n")
	if len(l) > n {
		l = l[:n]
	}
	return strings.Join(l, " | ")
}

func tail(s string, n int) string {
	if len(s) > n {
		s = s[len(s)-n:]
	}
	return strings.ReplaceAll(s, "\n", " | ")
}

// countFindings compares the procedures observed with the clamped counts the statement implies.
func countFindings(r *Run) []Finding {
	var fs []Finding
	c := r.Scn.Config
	var wantReg, wantEst, wantSvc, wantRel, wantDereg int
	if len(r.Scn.Args) == 0 {
		wantReg, wantEst = c.UENumber, c.UENumber
	} else {
		wantReg = c.NReg
		wantEst = min(wantReg, c.NPdu)
		wantSvc = min(wantEst, c.NSvc)
		wantRel = min(wantEst, c.NRel)
		wantDereg = min(wantReg, c.NDereg)
	}
	tr := track(r)
	var reg, est, svc, rel, dereg int
	for _, u := range tr {
		if u.everRegistered {
			reg++
		}
		est += u.est
		svc += u.svc
		rel += u.rel
		dereg += u.d
	}
	chk := func(name string, got, want int) {
		if got != want {
			fs = addFinding(fs, "count."+name+"@end", fmt.Sprintf("%d %s procedures completed at the network, configuration implies %d", got, name, want), -1)
		}
	}
	chk("registration", reg, wantReg)
	chk("establishment", est, wantEst)
	chk("service", svc, wantSvc)
	chk("release", rel, wantRel)
	chk("deregistration", dereg, wantDereg)
	return fs
}

// dataPlaneFindings checks the traffic-mode observations against what the network assigned.
func dataPlaneFindings(r *Run) []Finding {
	var fs []Finding
	c := r.Scn.Config
	type cl struct {
		ip, upf string
		teid    uint32
	}
	var want []cl
	for i := 0; i < c.UENumber; i++ {
		p := ueParamsOf(r.Scn, i)
		var teid uint32
		b, _ := hex.DecodeString(p.TEID)
		for _, x := range b {
			teid = teid<<8 | uint32(x)
		}
		want = append(want, cl{p.UEIP, p.UPFIP, teid})
	}
	var got []cl
	upfSeen := map[string]int{}
	attachC, attachU := -1, -1
	for _, e := range r.Events {
		if e.Ev != "dp" {
			continue
		}
		switch e.Label {
		case "AddClient":
			f, _ := e.Info["teid"].(float64)
			ip, _ := e.Info["client"].(string)
			upf, _ := e.Info["upf"].(string)
			got = append(got, cl{ip, upf, uint32(f)})
			if upfSeen[upf] == 0 {
				fs = addFinding(fs, "dp.upf-order@AddClient", fmt.Sprintf("client %s added for UPF %s before that UPF was registered", ip, upf), -1)
			}
		case "AddUpf":
			upf, _ := e.Info["upf"].(string)
			upfSeen[upf]++
			if upfSeen[upf] > 1 {
				fs = addFinding(fs, "dp.upf-twice@AddUpf", fmt.Sprintf("UPF %s registered twice", upf), -1)
			}
		case "AttachClientFacing":
			f, _ := e.Info["ifindex"].(float64)
			attachC = int(f)
		case "AttachUpfFacing":
			f, _ := e.Info["ifindex"].(float64)
			attachU = int(f)
		}
	}
	if wi := ifindex(c.DLIface); attachC != wi {
		fs = addFinding(fs, "cfg.downlink_iface@AttachClientFacing", fmt.Sprintf("client-facing program attached to ifindex %d, downlink_iface %s is %d", attachC, c.DLIface, wi), -1)
	}
	if wi := ifindex(c.ULIface); attachU != wi {
		fs = addFinding(fs, "cfg.uplink_iface@AttachUpfFacing", fmt.Sprintf("UPF-facing program attached to ifindex %d, uplink_iface %s is %d", attachU, c.ULIface, wi), -1)
	}
	if len(got) != len(want) {
		fs = addFinding(fs, "dp.clients@AddClient", fmt.Sprintf("%d clients installed, %d sessions were assigned", len(got), len(want)), -1)
	}
	for i := 0; i < len(got) && i < len(want); i++ {
		if got[i] != want[i] {
			fs = addFinding(fs, "dp.session-values@AddClient", fmt.Sprintf("session %d installed as ip=%s teid=%d upf=%s, the network assigned ip=%s teid=%d upf=%s",
				i, got[i].ip, got[i].teid, got[i].upf, want[i].ip, want[i].teid, want[i].upf), i)
		}
	}
	// the printed report: one {client teid upf} tuple per session, in any order. net.IP values in
	// unexported struct fields print as [a b c d]; accept the dotted form too.
	out := r.StdoutText()
	if len(want) > 0 && len(fs) == 0 {
		line := ""
		for _, l := range strings.Split(out, "\n") {
			if strings.HasPrefix(l, "[{") || l == "[]" {
				line = l
			}
		}
		var gotRep, rep []string
		for _, m := range reportTuple.FindAllStringSubmatch(line, -1) {
			gotRep = append(gotRep, normIP(m[1])+" "+m[2]+" "+normIP(m[3]))
		}
		for _, w := range want {
			rep = append(rep, fmt.Sprintf("%s %d %s", w.ip, w.teid, w.upf))
		}
		sort.Strings(rep)
		sort.Strings(gotRep)
		if strings.Join(rep, ";") != strings.Join(gotRep, ";") {
			fs = addFinding(fs, "dp.report@stdout", fmt.Sprintf("printed client list %q differs from the assigned sessions %v", line, rep), -1)
		}
	}
	return fs
}

var reportTuple = regexp.MustCompile(`\{(\[[0-9 ]+\]|[0-9.]+) ([0-9]+) (\[[0-9 ]+\]|[0-9.]+)\}`)

// normIP turns "[10 45 0 0]" (or its 16-octet form) into dotted notation.
func normIP(s string) string {
	if !strings.HasPrefix(s, "[") {
		return s
	}
	f := strings.Fields(strings.Trim(s, "[]"))
	if len(f) == 16 {
		f = f[12:]
	}
	return strings.Join(f, ".")
}

func ueParamsOf(s *scn.Scenario, ord int) scn.UEParams {
	if ord < len(s.UEs) {
		return s.UEs[ord]
	}
	return core.DeriveUEParams(s.UESeed, ord)
}

// Signature hashes the observable shape of a run: message sequence, verdicts, faults, read order.
func Signature(r *Run) (sig string, nontrivial bool) {
	h := sha256.New()
	// the shape of the case: which swarm dimensions this run exercised
	c := r.Scn.Config
	fmt.Fprintf(h, "shape|mnc%d|op-only=%v|msin%d|gnb%d|name%d|lat=%s|args=%d\n", len(c.MNC), c.OPC == "", (len(c.IMSI)-3-len(c.MNC))%2, c.GnbBitLength, lenClass(len(c.GnbName)), r.Scn.Lat.Class, len(r.Scn.Args))
	for i, u := range r.Scn.UEs {
		if i >= c.NReg && i >= c.UENumber {
			break
		}
		fmt.Fprintf(h, "ue|%x|%x|%x|%x|%x|%x|%x|id%d|%v\n", u.AuthOptIEs, u.SMCOpt, u.ICSOpt, u.RegAccOpt, u.CUCOpt, u.AccOpt, u.TransOpt, idClass(u.AmfUeID), u.IDPairInRel)
	}
	for _, e := range r.Events {
		switch e.Ev {
		case "ul", "dl", "read", "fault", "hang", "close", "dp", "dial":
			var rules []string
			for _, v := range e.Viol {
				rules = append(rules, v.Rule)
			}
			fmt.Fprintf(h, "%s|%s|%d|%v|%s|%s|%d\n", e.Ev, e.Label, e.UE, rules, e.Fault, e.Err, e.K)
			if e.Ev == "ul" && strings.Contains(e.Label, "SecurityModeComplete") {
				nontrivial = true
			}
		}
	}
	fmt.Fprintf(h, "exit=%d", r.Exit)
	return hex.EncodeToString(h.Sum(nil))[:16], nontrivial
}

func lenClass(n int) int {
	switch {
	case n <= 1:
		return 0
	case n < 128:
		return 1
	case n < 150:
		return 2
	}
	return 3
}

// idClass is the number of octets an AMF-UE-NGAP-ID needs on the wire.
func idClass(v int64) int {
	n := 1
	for v > 0xff {
		v >>= 8
		n++
	}
	return n
}

func jsonStr(v interface{}) string {
	b, _ := json.Marshal(v)
	return string(b)
}
