package main

import (
	"fmt"
	"strings"

	"verifsim/kernel"
	"verifsim/scn"
)

func init() {
	judges["ws-test"] = func(r *Run) []Finding {
		fs := ruleFindings(r)
		fs = append(fs, processFindings(r, "banner")...)
		for _, f := range dialFindings(r) {
			fs = addFinding(fs, f.Key, f.Detail, f.UE)
		}
		if len(processFindings(r, "banner")) == 0 {
			fs = append(fs, countFindings(r)...)
		}
		return fs
	}
	judges["ws-traffic"] = func(r *Run) []Finding {
		fs := ruleFindings(r)
		pf := processFindings(r, "block")
		fs = append(fs, pf...)
		for _, f := range dialFindings(r) {
			fs = addFinding(fs, f.Key, f.Detail, f.UE)
		}
		if len(pf) == 0 {
			fs = append(fs, countFindings(r)...)
			fs = append(fs, dataPlaneFindings(r)...)
		}
		return fs
	}
	cfgRules := []string{"cfg.", "suci.", "plmn.", "aka.res", "count.", "dp.", "argv.", "dial.", "sctp.", "exit.status", "panic", "hang", "deadlock", "watchdog", "banner.", "stack-overflow", "out-of-memory"}
	judges["ws-test-cfg"] = func(r *Run) []Finding { return onlyRules(judges["ws-test"](r), cfgRules...) }
	judges["ws-traffic-cfg"] = func(r *Run) []Finding { return onlyRules(judges["ws-traffic"](r), cfgRules...) }
	judges["ws-baseline"] = func(r *Run) []Finding { return nil }
	judges["ws-countonly"] = func(r *Run) []Finding { return onlyRules(ruleFindings(r), "nas.count") }
	judges["ws-badcred"] = func(r *Run) []Finding {
		var fs []Finding
		for _, e := range r.Events {
			if e.Ev == "ul" && strings.HasSuffix(e.Label, "AuthenticationResponse") {
				c := r.Scn.Config
				fs = addFinding(fs, "cfg.malformed-credential-used@UplinkNASTransport/AuthenticationResponse", fmt.Sprintf("the emulator answered the challenge although the configured credentials are not 128-bit values (k=%q opc=%q op=%q): something other than the configured value reached the key derivation", c.K, c.OPC, c.OP), e.UE)
			}
		}
		return fs
	}
	judges["ws-reject"] = func(r *Run) []Finding { return onlyRules(ruleFindings(r), "prereq.", "psi.") }
	judges["ws-dial"] = func(r *Run) []Finding {
		var fs []Finding
		for _, f := range dialFindings(r) {
			if strings.HasPrefix(f.Key, "cfg.") {
				fs = addFinding(fs, f.Key, f.Detail+" (after a refused first dial)", f.UE)
			}
		}
		return fs
	}
	judges["ws-none"] = judgeNoProcedure
	judges["ws-fault"] = judgeFault
}

// dialFindings compares the arguments of DialSCTP with the configured addresses.
func dialFindings(r *Run) []Finding {
	var fs []Finding
	c := r.Scn.Config
	seen := false
	for _, e := range r.Events {
		switch e.Ev {
		case "dial":
			seen = true
			chk := func(key string, got interface{}, want interface{}) {
				if fmt.Sprint(got) != fmt.Sprint(want) {
					fs = addFinding(fs, "cfg."+key+"@DialSCTP", fmt.Sprintf("DialSCTP received %v, configured %s is %v", got, key, want), -1)
				}
			}
			chk("amf_ngap_ip", e.Info["raddr"], c.AmfNgapIP)
			chk("amf_ngap_port", e.Info["rport"], c.AmfNgapPort)
			chk("stg_ngap_ip", e.Info["laddr"], c.StgNgapIP)
			chk("stg_ngap_port", e.Info["lport"], c.StgNgapPort)
		case "sndparam":
			if f, _ := e.Info["ppid"].(float64); uint32(f) != 0x3c000000 {
				fs = addFinding(fs, "sctp.ppid@ConnectToAmf", fmt.Sprintf("default PPID %#x, NGAP is 60 in network byte order (0x3c000000)", uint32(f)), -1)
			}
		}
	}
	if !seen && !r.NoLog {
		fs = addFinding(fs, "dial.missing@start", "no association was opened", -1)
	}
	return fs
}

// ---------- C01 ----------

func wsJobs(seed uint64, n int, o GenOpts, judge string) []Job {
	var jobs []Job
	root := kernel.New(seed).Sub("jobs/" + o.Profile)
	for i := 0; i < n; i++ {
		s := Gen(root.Uint64(), o)
		jobs = append(jobs, Job{S: s, Rig: "ws", Judge: judge, Tag: o.Profile})
	}
	return jobs
}

func checkC01(c *Ctx) {
	n := 5000
	if c.Tier == "thorough" {
		n = 150000
	}
	c.Rule = "one evaluation = one simulated run of the unmodified main() in test mode with 1..4 registrations against the reference AMF; scenario = (configuration, per-UE AMF choices incl. optional IEs, latency class) drawn from VERIF_SEED; distinct = distinct trace signature (hash of the sequence of message labels, UE ordinals, verdicts, read order); non-trivial = the run reached a protected NAS message (SECURITY MODE COMPLETE)"
	c.Assume = append(c.Assume, assumptionsWS...)
	o := GenOpts{Profile: "c01", Mode: "test", MinReg: 1, MaxReg: 4, Latency: "swarm", ExplicitUEs: 4, OptIEs: true}
	c.Batch(wsJobs(c.Seed, n, o, "ws-test"), func(j Job, r *Run, fs []Finding) {
		for _, e := range r.Events {
			if e.Ev == "ul" && strings.HasSuffix(e.Label, "RegistrationComplete") {
				c.Probes["registration-complete-verified"]++
			}
		}
		for _, u := range j.S.UEs {
			if u.AmfUeID > 0xffffffff {
				c.Probes["amf-ue-ngap-id-above-2^32"]++
			}
		}
		if j.S.Config.OPC == "" {
			c.Probes["op-only-configuration"]++
		}
		if len(j.S.Config.MNC) == 3 {
			c.Probes["mnc-3-digits"]++
		}
	})
	// procedure-level part: the same NG Setup + registration exchange for 2..4 explicit subscribers
	// in one process - roamers from other PLMNs, subscribers with credentials of their own (one
	// operator's OP with different keys, the same value as OPc and as OP, keys one bit apart), all
	// contexts created before the first registers - judged by the same reference AMF with every rule
	nMulti := 1500
	if c.Tier == "thorough" {
		nMulti = 100000
	}
	rm := kernel.New(c.Seed).Sub("c01-multi")
	var mj []Job
	for i := 0; i < nMulti; i++ {
		mj = append(mj, multiJobs(rm, 1, multiOpts{profile: "c01-multi", viaCreate: i%2 == 0, roamers: true, ownCreds: true, latency: "swarm-fast"}, "ps-multi", "c01-multi")...)
	}
	mj = append(mj, reregJobs(rm.Sub("rereg"), nMulti/3, "c01-rereg", "ps-multi", "c01-rereg")...)
	c.Batch(mj, func(j Job, r *Run, fs []Finding) {
		if j.Tag == "c01-rereg" {
			c.Probes["register-deregister-register-again runs"]++
			return
		}
		c.Probes["multi-subscriber-procedure-runs"]++
		for _, sub := range j.S.Subscribers[1:] {
			if !strings.HasPrefix(sub, j.S.Config.MCC+j.S.Config.MNC) {
				c.Probes["roaming-subscribers"]++
			}
		}
		for _, cr := range j.S.SubCreds {
			if cr.K != "" {
				c.Probes["subscribers-with-own-credentials"]++
			}
		}
	})
}

var assumptionsWS = []string{
	"the reference core (verifsim/ref) is my reading of TS 38.413/24.501/33.501/35.206 and the oracle; it shares no code with the repository",
	"a conformant AMF answers in the order Open5GS/free5GC do and sends one CONFIGURATION UPDATE COMMAND after REGISTRATION COMPLETE",
	"downlink messages other than the PDU session setup request (64 KiB buffer) stay below the emulator's 2048-octet read buffers",
	"gnb_id octets are below 0x80 (the documented \\x escapes of YAML cannot express single octets above that)",
	"the process is one goroutine on the Go runtime's fake clock; computation costs zero simulated time",
}

// ---------- C02 ----------

func checkC02(c *Ctx) {
	nTest, nTraffic, nSlow := 3000, 1000, 1000
	maxc := 6
	if c.Tier == "thorough" {
		nTest, nTraffic, nSlow = 60000, 20000, 20000
		maxc = 12
	}
	c.Rule = "one evaluation = one simulated run of main() (test mode with five independent repetition counts, or traffic mode with ue_number UEs) through registration, establishment, service request, release and deregistration; distinct = trace signature; non-trivial = reached a protected NAS message. Latency classes zero/nominal decide; class slow (core processing up to 4 s) is explored separately"
	c.Assume = append(c.Assume, assumptionsWS...)
	c.Assume = append(c.Assume, "the IMSI is drawn so that (IMSI mod 10000)+index stays in 1..15: the statement quantifies over counts and network values, not over IMSIs")
	obs := func(j Job, r *Run, fs []Finding) {
		cfg := j.S.Config
		if len(j.S.Args) == 1 {
			if cfg.NPdu > cfg.NReg || cfg.NSvc > cfg.NPdu || cfg.NRel > cfg.NPdu || cfg.NDereg > cfg.NReg {
				c.Probes["count-larger-than-prerequisite"]++
			}
		}
		stale := false
		for _, e := range r.Events {
			if e.Ev == "read" && e.Label == "PDUSessionResourceReleaseCommand" {
				stale = true
			}
		}
		if stale {
			c.Probes["stale-release-command-consumed-by-later-read"]++
		}
		for _, f := range fs {
			if strings.HasPrefix(f.Key, "timing.") {
				c.Probes["reply-overtaken-by-fixed-sleep"]++
			}
		}
	}
	o := GenOpts{Profile: "c02-test", Mode: "test", MinReg: 0, MaxReg: maxc, Sessions: true, MaxCount: maxc, Latency: "swarm-fast", ExplicitUEs: 12, OptIEs: true}
	c.Batch(wsJobs(c.Seed, nTest, o, "ws-test"), obs)
	o = GenOpts{Profile: "c02-traffic", Mode: "traffic", MinReg: 0, MaxReg: maxc, Sessions: true, Latency: "swarm-fast", ExplicitUEs: 12, OptIEs: true}
	c.Batch(wsJobs(c.Seed, nTraffic, o, "ws-traffic"), obs)
	o = GenOpts{Profile: "c02-slow", Mode: "test", MinReg: 1, MaxReg: 4, Sessions: true, MaxCount: 4, Latency: "slow", ExplicitUEs: 12, OptIEs: true}
	c.Batch(wsJobs(c.Seed, nSlow, o, "ws-test"), obs)
	// a conformant SMF may refuse a session (insufficient resources, unknown DNN ...): whatever the
	// emulator does then - the pinned code stops - it may not go on with service request or release
	// for the UE that has no session. Only the prerequisite and session-identity clauses are judged.
	o = GenOpts{Profile: "c02-reject", Mode: "test", MinReg: 1, MaxReg: 4, Sessions: true, MaxCount: 4, Latency: "swarm-fast", ExplicitUEs: 4, OptIEs: true}
	rj := wsJobs(c.Seed, nSlow/2, o, "ws-reject")
	for i, j := range rj {
		if len(j.S.UEs) == 0 {
			continue
		}
		if j.S.Config.NPdu == 0 {
			j.S.Config.NPdu = 1
		}
		k := i % len(j.S.UEs)
		j.S.UEs[k].EstReject = []int{26, 27, 28, 29, 31, 33, 67, 69}[i%8]
		if j.S.Config.NPdu <= k {
			j.S.Config.NPdu = k + 1
		}
		if i%2 == 0 { // later procedures are configured for the refused UE
			j.S.Config.NSvc, j.S.Config.NRel = max(j.S.Config.NSvc, k+1), max(j.S.Config.NRel, k+1)
		}
	}
	// a service request may be refused too (SERVICE REJECT in a DownlinkNASTransport). What the pinned
	// code then does at NGAP level is its own (known) business; what is judged here is only that no
	// uplink NAS COUNT is used twice under one key in whatever follows.
	o = GenOpts{Profile: "c02-svcreject", Mode: "test", MinReg: 1, MaxReg: 3, Sessions: true, MaxCount: 3, Latency: "swarm-fast", ExplicitUEs: 3, OptIEs: true}
	sj := wsJobs(c.Seed, nSlow/2, o, "ws-countonly")
	for i, j := range sj {
		if len(j.S.UEs) == 0 {
			continue
		}
		cfg := &j.S.Config
		k := i % len(j.S.UEs)
		j.S.UEs[k].SvcReject = []int{9, 10, 22, 28, 111}[i%5]
		cfg.NPdu, cfg.NSvc = max(cfg.NPdu, k+1), max(cfg.NSvc, k+1)
		cfg.NRel, cfg.NDereg = max(cfg.NRel, k+1), max(cfg.NDereg, k+1)
	}
	c.Batch(sj, func(j Job, r *Run, fs []Finding) {
		for _, e := range r.Events {
			if e.Ev == "dl" && strings.HasSuffix(e.Label, "ServiceReject") {
				c.Probes["service-request-refused-by-the-AMF"]++
				c.Faults["service-reject"]++
				break
			}
		}
	})
	c.Batch(rj, func(j Job, r *Run, fs []Finding) {
		for _, e := range r.Events {
			if e.Ev == "dl" && strings.HasSuffix(e.Label, "PDUSessionEstablishmentReject") {
				c.Probes["session-refused-by-the-SMF"]++
				c.Faults["establishment-reject"]++
				break
			}
		}
	})
}

// ---------- C11 ----------

func onlyRules(fs []Finding, prefixes ...string) []Finding {
	var out []Finding
	for _, f := range fs {
		for _, p := range prefixes {
			if strings.HasPrefix(f.Key, p) {
				out = append(out, f)
				break
			}
		}
	}
	return out
}

func init() {
	judges["ws-c11"] = func(r *Run) []Finding {
		fs := onlyRules(ruleFindings(r), "suci.", "plmn.")
		// the observations the property is about must have been made
		var sawSetup, sawReg, sawULI, sawDereg bool
		for _, e := range r.Events {
			if e.Ev != "ul" {
				continue
			}
			switch {
			case e.Label == "NGSetupRequest" && e.Info["ngsetup_plmn"] != nil:
				sawSetup = true
			case strings.HasSuffix(e.Label, "/RegistrationRequest") && e.Info["identity"] != nil:
				sawReg = true
			case strings.HasSuffix(e.Label, "/DeregistrationRequest") && e.Info["identity"] != nil:
				sawDereg = true
			}
			if e.Info["uli_plmn"] != nil {
				sawULI = true
			}
		}
		if !sawSetup {
			fs = addFinding(fs, "unobserved.ngsetup-plmn@"+lastSite(r), "the NGSetupRequest PLMN was never seen: "+firstLines(r.StderrText(), 3)+tail(r.StdoutText(), 120), -1)
		}
		if !sawReg || !sawULI {
			fs = addFinding(fs, "unobserved.suci@"+lastSite(r), "no REGISTRATION REQUEST identity / user location was seen: "+firstLines(r.StderrText(), 3)+tail(r.StdoutText(), 120), -1)
		}
		if r.Scn.Config.NDereg > 0 && !sawDereg {
			fs = addFinding(fs, "unobserved.dereg-suci@"+lastSite(r), "no DEREGISTRATION REQUEST identity was seen: "+firstLines(r.StderrText(), 3)+tail(r.StdoutText(), 120), -1)
		}
		return fs
	}
}

func init() {
	judges["ps-c11"] = func(r *Run) []Finding {
		fs := onlyRules(ruleFindings(r), "suci.", "plmn.")
		fs = append(fs, rigEnded(r)...)
		regs := 0
		for _, e := range r.Events {
			if e.Ev == "ul" && strings.HasSuffix(e.Label, "/RegistrationRequest") && e.Info["identity"] != nil && e.Info["uli_plmn"] != nil {
				regs++
			}
		}
		if regs < len(r.Scn.Subscribers) && len(fs) == 0 {
			fs = addFinding(fs, "unobserved.suci@"+lastSite(r), fmt.Sprintf("%d of %d registrations were observed: %s", regs, len(r.Scn.Subscribers), tail(r.StdoutText(), 160)), -1)
		}
		return fs
	}
}

func checkC11(c *Ctx) {
	c.Rule = "one evaluation = one simulated run (NG Setup + one registration, every 4th run also deregistration) whose SUCI and PLMN octets are decoded by the reference TS 24.501 9.11.3.4 / TS 38.413 decoders at the AMF; quick: seeded IMSIs over all MSIN lengths 1..10, both parities and MNC lengths; thorough: every MCC x every 2- and 3-digit MNC once with a random MSIN. distinct = distinct (MCC, MNC, MSIN length) triple; all are non-trivial. This is a configuration sweep of whole-system runs: it has no fault or schedule dimension"
	c.Assume = append(c.Assume, assumptionsWS...)
	var jobs []Job
	root := kernel.New(c.Seed).Sub("c11")
	mk := func(mcc, mnc string, r *kernel.Rand, i int) Job {
		o := GenOpts{Profile: "c11", Mode: "test", MinReg: 1, MaxReg: 1, Latency: "zero", ExplicitUEs: 1}
		s := Gen(r.Uint64(), o)
		n := 1 + i%10
		if n > 12-len(mnc) {
			n = 12 - len(mnc)
		}
		s.Config.MCC, s.Config.MNC = mcc, mnc
		s.Config.IMSI = mcc + mnc + r.Digits(n)
		if i%4 == 0 {
			s.Config.NDereg = 1
		}
		return Job{S: s, Rig: "ws", Judge: "ws-c11", Tag: "c11"}
	}
	if c.Tier == "thorough" {
		i := 0
		for m := 0; m < 1000; m++ {
			for n := 0; n < 1100; n++ {
				mnc := fmt.Sprintf("%02d", n)
				if n >= 100 {
					mnc = fmt.Sprintf("%03d", n-100)
				}
				jobs = append(jobs, mk(fmt.Sprintf("%03d", m), mnc, root, i))
				i++
			}
		}
		c.Exhaustive = true
		c.Extra["exhaustive_part"] = "MCC x MNC (1000 x 1100); MSIN digits are sampled"
	} else {
		// the corners of the MCC x MNC domain first (the thorough tier enumerates all of it)
		i := 0
		for _, mcc := range []string{"000", "001", "009", "090", "100", "900", "999", "099", "990"} {
			for _, mnc := range []string{"00", "000", "01", "001", "09", "009", "10", "100", "90", "900", "99", "999", "099", "990"} {
				jobs = append(jobs, mk(mcc, mnc, root, i))
				i++
			}
		}
		for ; i < 6000; i++ {
			jobs = append(jobs, mk(root.Digits(3), root.Digits(2+root.Intn(2)), root, i))
		}
	}
	// procedure-level part: several subscribers register (and some deregister) over one association
	// after one NG Setup; some are roamers whose home PLMN differs from the serving PLMN, so that
	// "the PLMN announced at NG Setup is repeated in every user-location IE" and "the SUCI is the
	// one of that IMSI" are told apart, and state carried from one UE's identity to the next shows
	nPS := 1000
	if c.Tier == "thorough" {
		nPS = 40000
	}
	rp := root.Sub("ps")
	for i := 0; i < nPS; i++ {
		o := GenOpts{Profile: "c11-ps", Mode: "test", MinReg: 1, MaxReg: 1, Latency: "zero", ExplicitUEs: 4}
		s := Gen(rp.Uint64(), o)
		s.Args = []string{}
		cfg := s.Config
		n := rp.Range(2, 4)
		subs := []string{cfg.IMSI}
		seen := map[string]bool{cfg.IMSI: true}
		for len(subs) < n {
			var sub string
			tail := rp.Digits(1 + rp.Intn(12-len(cfg.MNC)))
			switch rp.Intn(3) {
			case 0: // same PLMN, another MSIN (length may differ)
				sub = cfg.MCC + cfg.MNC + tail
			case 1: // roamer: another MCC/MNC with the same MNC length
				sub = rp.Digits(3) + rp.Digits(len(cfg.MNC)) + tail
			default: // roamer from a neighbouring PLMN: one digit differs
				pl := []byte(cfg.MCC + cfg.MNC)
				k := rp.Intn(len(pl))
				pl[k] = byte('0' + (int(pl[k]-'0')+1+rp.Intn(9))%10)
				sub = string(pl) + tail
			}
			if !seen[sub] {
				seen[sub] = true
				subs = append(subs, sub)
			}
		}
		s.Subscribers = subs
		s.Population = n
		var dereg []interface{}
		for k := 0; k < n; k++ {
			if rp.Chance(1, 3) {
				dereg = append(dereg, float64(k))
			}
		}
		s.Rig = map[string]interface{}{"mode": "multi", "nea": 0, "nia": 2, "ran_id": 1 + rp.Intn(1000), "dereg": dereg}
		// explicit network choices for every UE
		for len(s.UEs) < n {
			u := genUE(rp.Sub(fmt.Sprint("ue", i, len(s.UEs))), o, len(s.UEs))
			u.AmfUeID = int64(1000*len(s.UEs)) + u.AmfUeID%1000
			s.UEs = append(s.UEs, u)
		}
		jobs = append(jobs, Job{S: s, Rig: "ps", Judge: "ps-c11", Tag: "c11-ps-multi"})
	}
	// a second NG Setup for another PLMN on the same association: the PLMN announced last is the one
	// every later user-location IE repeats; nothing captured at the first setup may survive
	for i := 0; i < nPS/4; i++ {
		o := GenOpts{Profile: "c11-resetup", Mode: "test", MinReg: 1, MaxReg: 1, Latency: "zero", ExplicitUEs: 2, MinMSIN: 4}
		s := Gen(rp.Uint64(), o)
		s.Args = []string{}
		cfg := s.Config
		mcc2, mnc2 := rp.Digits(3), rp.Digits(len(cfg.MNC))
		if rp.Chance(1, 3) { // a neighbouring PLMN: one digit differs
			pl := []byte(cfg.MCC + cfg.MNC)
			k := rp.Intn(len(pl))
			pl[k] = byte('0' + (int(pl[k]-'0')+1+rp.Intn(9))%10)
			mcc2, mnc2 = string(pl[:3]), string(pl[3:])
		}
		if mcc2+mnc2 == cfg.MCC+cfg.MNC {
			continue
		}
		s.ResetupPLMN = mcc2 + mnc2
		second := mcc2 + mnc2 + rp.Digits(rp.Range(4, 12-len(mnc2)))
		if rp.Chance(1, 3) { // the second subscriber roams in from the first PLMN
			second = cfg.MCC + cfg.MNC + rp.Digits(rp.Range(4, 12-len(mnc2)))
		}
		if second == cfg.IMSI {
			continue
		}
		s.Subscribers = []string{cfg.IMSI, second}
		s.Population = 2
		s.Rig = map[string]interface{}{"mode": "resetup", "nea": 0, "nia": 2, "ran_id": 1 + rp.Intn(1000), "dereg_first": rp.Bool()}
		for len(s.UEs) < 2 {
			u := genUE(rp.Sub(fmt.Sprint("rue", i, len(s.UEs))), o, len(s.UEs))
			u.AmfUeID = int64(1000*len(s.UEs)) + u.AmfUeID%1000
			s.UEs = append(s.UEs, u)
		}
		jobs = append(jobs, Job{S: s, Rig: "ps", Judge: "ps-c11", Tag: "c11-ps-resetup"})
	}
	// "... and agrees with the library's own PLMN conversion": PlmnIDToNas is called, in processes that
	// convert several PLMNs one after the other (among them MNC ab and 0ab of one MCC), and compared
	// with the reference encoding
	for i := 0; i < nPS/2; i++ {
		jobs = append(jobs, Job{S: probeScenario(rp, i), Rig: "ps", Judge: "ps-probe-c11", Tag: "c11-plmn-conversion"})
	}
	triples := map[string]bool{}
	c.Batch(jobs, func(j Job, r *Run, fs []Finding) {
		cfg := j.S.Config
		if j.Tag == "c11-plmn-conversion" {
			c.Probes["library-plmn-conversions"] += 2 * len(j.S.Rig["probes"].([]interface{}))
			return
		}
		if j.Tag == "c11-ps-resetup" {
			c.Probes["second-ng-setup-for-another-plmn"]++
			triples[fmt.Sprintf("resetup/%s/%s/%s", cfg.MCC, cfg.MNC, j.S.ResetupPLMN)] = true
			return
		}
		if len(j.S.Subscribers) > 0 {
			c.Probes["multi-subscriber-procedure-runs"]++
			for _, sub := range j.S.Subscribers[1:] {
				if !strings.HasPrefix(sub, cfg.MCC+cfg.MNC) {
					c.Probes["roaming-subscribers"]++
				}
			}
			triples[fmt.Sprintf("ps/%s/%s/%d", cfg.MCC, cfg.MNC, len(j.S.Subscribers))] = true
			return
		}
		triples[fmt.Sprintf("%s/%s/%d", cfg.MCC, cfg.MNC, len(cfg.IMSI)-3-len(cfg.MNC))] = true
		if (len(cfg.IMSI)-3-len(cfg.MNC))%2 == 1 {
			c.Probes["odd-msin"]++
		} else {
			c.Probes["even-msin"]++
		}
		if cfg.NDereg > 0 {
			c.Probes["deregistration-suci-checked"]++
		}
	})
	c.sigs = triples
}

// ---------- C16 ----------

func init() {
	judges["ws-c16"] = func(r *Run) []Finding {
		fs := onlyRules(ruleFindings(r), "ident.", "suci.", "aka.res", "nas.seccap", "nas.mac", "nas.sht")
		fs = append(fs, processFindings(r, "banner")...)
		if len(processFindings(r, "banner")) == 0 {
			fs = append(fs, onlyRules(countFindings(r), "count.registration")...)
		}
		// the selected algorithms must be the advertised ones: SECURITY MODE COMPLETE verified under them
		return fs
	}
}

func checkC16(c *Ctx) {
	c.Rule = "one evaluation = one simulated test-mode run registering a population of N UEs; at every InitialUEMessage the reference AMF checks that the SUPI is new, is initial IMSI + index with the same number of digits and PLMN, that the RAN-UE-NGAP-ID is new, that exactly one ciphering and one integrity algorithm are advertised, and RES*/MAC verify under the configured K and OP/OPc; distinct = distinct (N, IMSI shape) signature; non-trivial = N >= 2"
	c.Assume = append(c.Assume, assumptionsWS...)
	pops := []int{1, 2, 3, 10, 100, 300, 9999, 10000} // one run each at the top of the range (a few seconds of wall time, hours of simulated time)
	reps := 300
	if c.Tier == "thorough" {
		pops = []int{1, 2, 3, 10, 100, 1000, 9999, 10000}
		reps = 2000
	}
	var jobs []Job
	root := kernel.New(c.Seed).Sub("c16")
	// systematic part: every carry position of the MSIN, both MNC lengths, populations that count across it
	for msin := 2; msin <= 10; msin++ {
		for pos := 1; pos < msin; pos++ {
			for _, n := range []int{3, 12} {
				prof := fmt.Sprintf("c16-carry-%d-%d", msin, pos)
				forceCarry[prof] = struct{ msin, pos int }{msin, pos}
				o := GenOpts{Profile: prof, Mode: "test", MinReg: n, MaxReg: n, Latency: "zero", ExplicitUEs: 3}
				s := Gen(root.Uint64(), o)
				jobs = append(jobs, Job{S: s, Rig: "ws", Judge: "ws-c16", Tag: fmt.Sprintf("c16/carry msin=%d pos=%d N=%d", msin, pos, n)})
			}
		}
	}
	for _, n := range pops {
		k := reps
		if n >= 100 {
			k = reps / 10
		}
		if n >= 1000 {
			k = reps / 100
		}
		if n >= 9999 {
			k = 3
			if c.Tier != "thorough" {
				k = 1
			}
		}
		for i := 0; i < k; i++ {
			o := GenOpts{Profile: "c16", Mode: "test", MinReg: n, MaxReg: n, Latency: "zero", ExplicitUEs: 3, OptIEs: i%2 == 0}
			s := Gen(root.Uint64(), o)
			s.Quiet = n > 50
			if n >= 1000 {
				s.Rig = map[string]interface{}{"long": true}
			}
			jobs = append(jobs, Job{S: s, Rig: "ws", Judge: "ws-c16", Tag: fmt.Sprintf("c16/N=%d", n)})
		}
	}
	nMulti := 1200
	if c.Tier == "thorough" {
		nMulti = 60000
	}
	jobs = append(jobs, multiJobs(root.Sub("multi"), nMulti, multiOpts{profile: "c16-multi", viaCreate: true, roamers: true, ownCreds: true}, "ps-multi-c16", "c16-multi")...)
	// the same context in a second life, possibly with other algorithms: what it advertises must be
	// what it then uses
	jobs = append(jobs, reregJobs(root.Sub("rereg"), nMulti/3, "c16-rereg", "ps-rereg-c16", "c16-rereg")...)
	sh := map[string]bool{}
	c.Batch(jobs, func(j Job, r *Run, fs []Finding) {
		cfg := j.S.Config
		if j.Tag == "c16-rereg" {
			c.Probes["register-deregister-register-again runs"]++
			sh[fmt.Sprintf("rereg/%v/%v/%v/%v", j.S.Rig["nea"], j.S.Rig["nia"], j.S.Rig["nea2"], j.S.Rig["nia2"])] = true
			return
		}
		if len(j.S.Subscribers) > 0 {
			// UE creation for several subscribers (and several credential sets) in one process
			c.Probes["multi-subscriber-creations"] += len(j.S.Subscribers)
			own := 0
			for _, cr := range j.S.SubCreds {
				if cr.K != "" {
					own++
				}
			}
			sh[fmt.Sprintf("multi/%d/%d/%d/%v", len(j.S.Subscribers), len(cfg.IMSI), own, cfg.OPC == "")] = true
			return
		}
		if cfg.NReg >= 2 {
			sh[fmt.Sprintf("%d/%d/%d/%v/%s", cfg.NReg, len(cfg.IMSI), len(cfg.MNC), strings.HasPrefix(cfg.IMSI[3+len(cfg.MNC):], "0"), carryShape(cfg.IMSI, cfg.NReg))] = true
			if carryShape(cfg.IMSI, cfg.NReg) != "none" {
				c.Probes["population-counts-across-a-power-of-ten"]++
			}
		}
		c.Probes["ues-registered"] += cfg.NReg
		if cfg.NReg >= 9999 {
			c.Probes["population-at-10000"]++
		}
	})
	c.sigs = sh
}

// carryShape tells at which digit position (from the right) counting n subscribers upwards carries.
func carryShape(imsi string, n int) string {
	last, ok := coreSupi(imsi, n-1)
	if !ok {
		return "overflow"
	}
	pos := 0
	for i := 0; i < len(imsi); i++ {
		if imsi[i] != last[i] {
			pos = len(imsi) - i
			break
		}
	}
	if pos <= 1 {
		return "none"
	}
	return fmt.Sprint("carry-into-digit-", pos)
}

func coreSupi(imsi string, idx int) (string, bool) {
	d := []byte(imsi)
	carry := idx
	for i := len(d) - 1; i >= 0 && carry > 0; i-- {
		v := int(d[i]-'0') + carry
		d[i] = byte('0' + v%10)
		carry = v / 10
	}
	return string(d), carry == 0
}

// ---------- C18 ----------

func judgeNoProcedure(r *Run) []Finding {
	var fs []Finding
	for _, e := range r.Events {
		if e.Ev == "dial" || e.Ev == "ul" || e.Ev == "dp" {
			fs = addFinding(fs, "argv.procedure-started@"+e.Ev, fmt.Sprintf("argument vector %q started a procedure (%s %s)", r.Scn.Args, e.Ev, e.Label), -1)
		}
	}
	out := r.StdoutText()
	if strings.Contains(out, "TEST MODE") || strings.Contains(out, "TRAFFIC MODE") {
		fs = addFinding(fs, "argv.mode-banner@stdout", fmt.Sprintf("argument vector %q printed a mode banner", r.Scn.Args), -1)
	}
	if kind, where := crashSite(r.StderrText()); kind != "" {
		fs = addFinding(fs, kind+"@"+where, firstLines(r.StderrText(), 5), -1)
	}
	return fs
}

func shuffleYAML(r *kernel.Rand, c scn.Config) string {
	base := ConfigYAML(c)
	lines := strings.Split(strings.TrimRight(base, "\n"), "\n")
	var head, keys []string
	for i, l := range lines {
		if strings.HasPrefix(l, "configuration:") {
			head = lines[:i+1]
			keys = append([]string{}, lines[i+1:]...)
			break
		}
	}
	for i := len(keys) - 1; i > 0; i-- {
		j := r.Intn(i + 1)
		keys[i], keys[j] = keys[j], keys[i]
	}
	var out []string
	out = append(out, head...)
	for _, k := range keys {
		if r.Chance(1, 6) {
			out = append(out, "  # comment "+r.Digits(3))
		}
		if r.Chance(1, 8) {
			out = append(out, "")
		}
		// re-quote simple scalars in another style
		kv := strings.SplitN(strings.TrimSpace(k), ": ", 2)
		if len(kv) == 2 && strings.HasPrefix(kv[1], "\"") && !strings.Contains(kv[1], "\\") && r.Chance(1, 3) {
			inner := strings.Trim(kv[1], "\"")
			if !strings.Contains(inner, "'") && kv[0] != "gnb_id" {
				k = "  " + kv[0] + ": '" + inner + "'"
			}
		}
		if r.Chance(1, 5) {
			k += "   # " + r.Digits(2)
		}
		out = append(out, k)
	}
	if r.Chance(1, 4) {
		out = append(out, "  unknown_key: 42")
	}
	return strings.Join(out, "\n") + "\n"
}

func checkC18(c *Ctx) {
	nT, nTr, nArg := 2500, 1000, 700
	if c.Tier == "thorough" {
		nT, nTr, nArg = 60000, 30000, 5000
	}
	c.Rule = "one evaluation = one simulated run under a drawn configuration file (24 documented keys, shuffled key order, quoting styles, comments, unknown keys) and argument vector; each configured value is observed where it reaches a procedure: DialSCTP arguments, NGSetupRequest, SUCI, RES* (k/opc/op), S-NSSAI, DL tunnel address, interface index of the attach calls, numbers of procedures; distinct = trace signature; non-trivial = reached a protected NAS message (argv cases: distinct argument vector)"
	c.Assume = append(c.Assume, assumptionsWS...)
	root := kernel.New(c.Seed).Sub("c18")
	var jobs []Job
	for i := 0; i < nT; i++ {
		o := GenOpts{Profile: "c18-test", Mode: "test", MinReg: 0, MaxReg: 4, Sessions: true, MaxCount: 4, Latency: "zero", ExplicitUEs: 4}
		s := Gen(root.Uint64(), o)
		if i%3 != 0 {
			s.Rig = map[string]interface{}{"config_yaml": shuffleYAML(root.Sub(fmt.Sprint("y", i)), s.Config)}
		}
		jobs = append(jobs, Job{S: s, Rig: "ws", Judge: "ws-test-cfg", Tag: "c18-test"})
	}
	for i := 0; i < nTr; i++ {
		o := GenOpts{Profile: "c18-traffic", Mode: "traffic", MinReg: 0, MaxReg: 4, Sessions: true, Latency: "zero", ExplicitUEs: 4}
		s := Gen(root.Uint64(), o)
		if i%3 != 0 {
			s.Rig = map[string]interface{}{"config_yaml": shuffleYAML(root.Sub(fmt.Sprint("z", i)), s.Config)}
		}
		jobs = append(jobs, Job{S: s, Rig: "ws", Judge: "ws-traffic-cfg", Tag: "c18-traffic"})
	}
	// the shortest IMSIs (one to three MSIN digits): registration and deregistration only, because the
	// emulator takes the PDU session identity from the last four digits of the SUPI
	rs := root.Sub("short-imsi")
	for i := 0; i < nT/5; i++ {
		o := GenOpts{Profile: "c18-short", Mode: "test", MinReg: 1, MaxReg: 4, MaxMSIN: 3, Latency: "zero", ExplicitUEs: 4}
		s := Gen(rs.Uint64(), o)
		if i%3 != 0 {
			s.Rig = map[string]interface{}{"config_yaml": shuffleYAML(rs.Sub(fmt.Sprint("y", i)), s.Config)}
		}
		jobs = append(jobs, Job{S: s, Rig: "ws", Judge: "ws-test-cfg", Tag: "c18-short"})
	}
	// a refused first dial: whatever the program does next, it may not open an association with
	// other parameters than the configured ones
	for i := 0; i < nT/10; i++ {
		o := GenOpts{Profile: "c18-dialfail", Mode: []string{"test", "traffic"}[i%2], MinReg: 1, MaxReg: 2, Sessions: true, MaxCount: 2, Latency: "zero", ExplicitUEs: 2}
		s := Gen(root.Uint64(), o)
		s.Faults = []scn.Fault{{Kind: "dial_fail", Class: "first"}}
		jobs = append(jobs, Job{S: s, Rig: "ws", Judge: "ws-dial", Tag: "c18-dial-refused-once"})
	}
	// malformed credentials: a K / OPc / OP that is not 32 hex digits is not a value the procedures
	// can receive unchanged. The pinned code stops; padding, truncating or substituting it and
	// answering the challenge would be "a value other than the configured one reaching a procedure".
	for i := 0; i < nT/10; i++ {
		o := GenOpts{Profile: "c18-badcred", Mode: []string{"test", "traffic"}[i%2], MinReg: 1, MaxReg: 2, Latency: "zero", ExplicitUEs: 2}
		s := Gen(root.Uint64(), o)
		rb := root.Sub(fmt.Sprint("bad", i))
		mangle := func(v string) string {
			switch rb.Intn(6) {
			case 0:
				return v[2:] // lost its first octet
			case 1:
				return v[:len(v)-2]
			case 2:
				return v + "00"
			case 3:
				return v[1:] // odd number of digits
			case 4:
				return v[:7] + "g" + v[8:]
			}
			return v[:2*rb.Range(1, 14)]
		}
		full := func(v string) string {
			if len(v) != 32 {
				return hexCase(rb, rb.Bytes(16))
			}
			return v
		}
		switch i % 3 {
		case 0: // OPc malformed, OP fine
			s.Config.OPC, s.Config.OP = mangle(full(s.Config.OPC)), full(s.Config.OP)
		case 1: // OP-only subscription with a malformed OP
			s.Config.OPC, s.Config.OP = "", mangle(full(s.Config.OP))
		default: // K malformed
			s.Config.K = mangle(s.Config.K)
		}
		s.Rig = map[string]interface{}{"badcred": true}
		jobs = append(jobs, Job{S: s, Rig: "ws", Judge: "ws-badcred", Tag: "c18-malformed-credentials"})
	}
	c.Batch(jobs, func(j Job, r *Run, fs []Finding) {
		if j.Tag == "c18-malformed-credentials" {
			c.Probes["malformed-credential runs"]++
			return
		}
		if len(j.S.Faults) > 0 {
			c.Probes["first-dial-refused"]++
			return
		}
		if j.S.Config.DLIface != j.S.Config.ULIface && len(j.S.Args) == 0 {
			c.Probes["distinct-interfaces-distinguish-a-swap"]++
		}
		if j.S.Rig != nil {
			c.Probes["shuffled-yaml"]++
		}
	})
	// argument vectors of length 0..3
	words := []string{"-t", "-x", "", "-T", "t", "--t", "-t ", "-tt", "x", "-t=true", "-t=1", "-t=false", "-t=0", "--", "-", "-h", "--help", "-test", "--test", "-traffic", "-t=", "--t=true", "-t\t", " -t", "-v", "0", "1", "true"}
	var argJobs []Job
	seenArgs := map[string]bool{}
	for i := 0; i < nArg; i++ {
		n := root.Range(1, 3)
		var args []string
		for k := 0; k < n; k++ {
			args = append(args, words[root.Intn(len(words))])
		}
		if len(args) == 1 && args[0] == "-t" {
			continue
		}
		o := GenOpts{Profile: "c18-argv", Mode: "test", MinReg: 1, MaxReg: 2, Sessions: true, MaxCount: 2, Latency: "zero", ExplicitUEs: 2}
		s := Gen(root.Uint64(), o)
		s.Args = args
		seenArgs[strings.Join(args, "\x00")] = true
		argJobs = append(argJobs, Job{S: s, Rig: "ws", Judge: "ws-none", Tag: "c18-argv"})
	}
	c.Batch(argJobs, nil)
	for a := range seenArgs {
		c.sigs["argv:"+a] = true
	}
	c.Probes["distinct-bad-argument-vectors"] = len(seenArgs)
}

// ---------- C19 ----------

// judgeFault is the fail-stop oracle for a run with exactly one injected fault.
func judgeFault(r *Run) []Finding {
	var fs []Finding
	if len(r.Scn.Faults) < 1 {
		return fs
	}
	// a fault sequence: every fault but the last is garbage in the one message whose content the
	// emulator ignores (it must carry on); the last one is the fault being judged
	f := r.Scn.Faults[len(r.Scn.Faults)-1]
	site := "unfired"
	var firedAt, observedAt int64 = -1, -1
	label := ""
	for _, e := range r.Events {
		switch e.Ev {
		case "fault":
			if e.K != f.K && f.Kind != "dial_fail" && f.Kind != "write_err" {
				continue // an earlier, tolerated fault of the sequence
			}
			firedAt = e.T
			label = e.Label
		case "read":
			if firedAt >= 0 && observedAt < 0 && e.K == f.K {
				if f.Kind == "garbage" {
					if c, _ := e.Info["complete"].(bool); c {
						observedAt = e.T
					}
				} else if e.Err != "" {
					observedAt = e.T
				}
			}
		case "ul-after-shutdown":
			if observedAt < 0 {
				observedAt = e.T
			}
		}
	}
	if f.Kind == "dial_fail" || f.Kind == "write_err" {
		observedAt = firedAt
		label = f.Kind
	}
	if firedAt < 0 || observedAt < 0 {
		return fs // the fault never reached the emulator: nothing to judge
	}
	site = fmt.Sprintf("%s/%s", f.Kind, label)
	if f.Kind == "garbage" {
		cls := f.Class
		if i := strings.IndexByte(cls, ':'); i > 0 {
			cls = cls[:i] // one key per message and class, whatever the parameter (the replay keeps the exact one)
		}
		site = fmt.Sprintf("garbage:%s/%s", cls, label)
		if strings.HasSuffix(label, "ConfigurationUpdateCommand") {
			return fs // the statement exempts the one message after REGISTRATION COMPLETE
		}
	}
	out := r.StdoutText()
	kind, where := crashSite(r.StderrText())
	switch {
	case r.TimedOut:
		fs = addFinding(fs, "failstop.watchdog@"+site, "still running at the wall-clock watchdog after the fault", -1)
	case r.Exit == 97:
		fs = addFinding(fs, "failstop.hang@"+site, "the emulator blocked in Read forever after the fault", -1)
	case r.Exit == 98:
		fs = addFinding(fs, "failstop.spin@"+site, "the emulator keeps polling the association forever after the fault instead of terminating", -1)
	case kind == "deadlock":
		fs = addFinding(fs, "failstop.deadlock@"+site, "all goroutines asleep after the fault", -1)
	case r.Exit == 0:
		fs = addFinding(fs, "failstop.exit0@"+site, "the process ended with exit status 0 after the fault; stdout tail: "+tail(out, 160), -1)
	}
	_ = where
	if end := r.SimEnd(); end-observedAt > 3e9 {
		fs = addFinding(fs, "failstop.slow@"+site, fmt.Sprintf("the process was still active %.1f simulated seconds after it observed the fault", float64(end-observedAt)/1e9), -1)
	}
	// nothing may be claimed after the fault
	for _, l := range r.Stdout {
		if l.T >= observedAt && strings.Contains(l.Text, ">> All tests finished") {
			fs = addFinding(fs, "failstop.banner@"+site, "completion banner printed after the fault", -1)
		}
	}
	if len(r.Scn.Args) == 0 {
		est := 0
		for _, u := range track(r) {
			est += u.est
		}
		clients := 0
		for _, e := range r.Events {
			if e.Ev == "dp" && e.Label == "AddClient" {
				clients++
			}
		}
		if clients > est {
			fs = addFinding(fs, "failstop.phantom-session@"+site, fmt.Sprintf("%d clients installed, only %d sessions were obtained", clients, est), -1)
		}
	}
	return fs
}

func checkC19(c *Ctx) {
	seeds := 12
	if c.Tier == "thorough" {
		seeds = 120
	}
	c.Level = "fault_enumeration"
	c.Rule = "per seed: one fault-free baseline of the complete conversation (test mode: 2..4 UEs through all five procedures; every 3rd seed traffic mode), then one run per (downlink message index k) x {close_before, abort_before, garbage:choice, garbage:prefix, garbage:empty-container, garbage:strict prefix at drawn cut points (thorough: every cut point for one seed in eight), garbage:message value of 0, 1 or 2 octets (no room for the IE count), garbage:inner NAS-PDU length running out of its IE, garbage:undecodable bytes filling the 2048-octet receive buffer exactly / twice / off by one}, plus dial_fail and write_err at uplink indices, plus fault sequences (garbage in the exempt CONFIGURATION UPDATE COMMAND, tolerated, followed by a fault at a later message); every 4th seed runs against a slow core so that faults land in the emulator's fixed sleeps; evaluation = one faulted run; distinct = distinct (fault kind, message label at which it was observed, how the process ended); non-trivial = the fault was observed by the emulator"
	c.Assume = append(c.Assume, assumptionsWS...)
	c.Assume = append(c.Assume, "garbage is restricted to octet strings every X.691 decoder must refuse (invalid CHOICE index, length exceeding the data); the message after REGISTRATION COMPLETE is exempt as the statement says; a fault in a message the emulator never reads is not judged")
	root := kernel.New(c.Seed).Sub("c19")
	distinct := map[string]bool{}
	for i := 0; i < seeds; i++ {
		var o GenOpts
		judge := "ws-baseline"
		if i%3 == 2 {
			o = GenOpts{Profile: "c19-traffic", Mode: "traffic", MinReg: 2, MaxReg: 3, Sessions: true, Latency: "nominal", ExplicitUEs: 4, OptIEs: true}
		} else {
			o = GenOpts{Profile: "c19", Mode: "test", MinReg: 2, MaxReg: 4, Sessions: true, MaxCount: 4, Latency: "nominal", ExplicitUEs: 4, OptIEs: true}
		}
		if i%4 == 3 {
			// a slow core: replies and the shutdown arrive during the emulator's fixed sleeps instead of
			// while it is blocked in Read, so some faults are met by a Write first
			o.Latency = "slow"
			o.Profile += "-slow"
		}
		base := Gen(root.Uint64(), o)
		if o.Mode == "test" { // complete conversation: every procedure at least once
			cfg := &base.Config
			for _, p := range []*int{&cfg.NPdu, &cfg.NSvc, &cfg.NRel, &cfg.NDereg} {
				if *p == 0 {
					*p = 1 + i%2
				}
			}
			if i%6 == 4 {
				// registration only: nothing is written after the last UE's registration, so a fault at
				// its last messages can only be noticed by the read it hits
				cfg.NPdu, cfg.NSvc, cfg.NRel, cfg.NDereg = 0, 0, 0, 0
			}
		}
		var m, nw int
		var dlLen []int
		var cucIdx []int
		c.Batch([]Job{{S: base, Rig: "ws", Judge: judge, Tag: "c19-baseline"}}, func(j Job, r *Run, fs []Finding) {
			end := "banner"
			if len(j.S.Args) == 0 {
				end = "block"
			}
			if pf := processFindings(r, end); len(pf) > 0 {
				c.Probes["baseline-conversation-incomplete"]++
				fmt.Printf("note: the fault-free baseline of seed %d did not complete (%s); faults are enumerated over the part that ran\n", j.S.Seed, pf[0].Key)
			}
			for _, e := range r.Events {
				if e.Ev == "dl" {
					m++
					dlLen = append(dlLen, len(e.Hex)/2)
					if strings.HasSuffix(e.Label, "ConfigurationUpdateCommand") {
						cucIdx = append(cucIdx, e.K)
					}
				}
				if e.Ev == "ul" {
					nw++
				}
			}
		})
		var jobs []Job
		add := func(f scn.Fault) {
			s := cloneScn(base)
			s.Faults = []scn.Fault{f}
			jobs = append(jobs, Job{S: s, Rig: "ws", Judge: "ws-fault", Tag: "c19/" + f.Kind})
		}
		for k := 0; k < m; k++ {
			add(scn.Fault{Kind: "close_before", K: k})
			add(scn.Fault{Kind: "abort_before", K: k})
			add(scn.Fault{Kind: "garbage", K: k, Class: "choice"})
			add(scn.Fault{Kind: "garbage", K: k, Class: "prefix"})
			add(scn.Fault{Kind: "garbage", K: k, Class: "empty-container"})
			add(scn.Fault{Kind: "garbage", K: k, Class: []string{"empty-value", "short-value", "short-value2"}[(k+i)%3]})
			if c.Tier == "thorough" {
				add(scn.Fault{Kind: "garbage", K: k, Class: "empty-value"})
				add(scn.Fault{Kind: "garbage", K: k, Class: "short-value"})
				add(scn.Fault{Kind: "garbage", K: k, Class: "short-value2"})
			}
			add(scn.Fault{Kind: "garbage", K: k, Class: fmt.Sprint("inner-len:", []int{1, 2, 7, 40, 100}[(k+i)%5])})
			add(scn.Fault{Kind: "garbage", K: k, Class: "frag0"})
			add(scn.Fault{Kind: "garbage", K: k, Class: fmt.Sprint("long:", []int{2048, 4096, 2047, 2049, 6144, 65535, 131070}[(k+i)%7])})
			if c.Tier == "thorough" {
				add(scn.Fault{Kind: "garbage", K: k, Class: "long:2048"})
				add(scn.Fault{Kind: "garbage", K: k, Class: "long:4096"})
			}
			// strict prefixes of the genuine reply: two drawn cut points per message, every cut point
			// in the thorough tier for one seed in eight
			if n := dlLen[k]; n > 1 {
				if c.Tier == "thorough" && i%8 == 0 {
					for cut := 1; cut < n; cut++ {
						add(scn.Fault{Kind: "garbage", K: k, Class: fmt.Sprint("cut:", cut)})
					}
				} else {
					add(scn.Fault{Kind: "garbage", K: k, Class: fmt.Sprint("cut:", 1+root.Intn(n-1))})
					add(scn.Fault{Kind: "garbage", K: k, Class: fmt.Sprint("cut:", n-1-root.Intn(min(n-1, 4)))})
				}
			}
		}
		// fault sequences: garbage in a CONFIGURATION UPDATE COMMAND (tolerated by the statement)
		// followed by a fault at a later message
		for ci, ck := range cucIdx {
			if ci >= 2 && c.Tier != "thorough" {
				break
			}
			for k := ck + 1; k < m; k++ {
				if c.Tier != "thorough" && (k+ci+i)%3 != 0 {
					continue
				}
				for _, f2 := range []scn.Fault{{Kind: "close_before", K: k}, {Kind: "garbage", K: k, Class: "choice"}, {Kind: "garbage", K: k, Class: "prefix"}} {
					sq := cloneScn(base)
					sq.Faults = []scn.Fault{{Kind: "garbage", K: ck, Class: []string{"choice", "prefix", "empty-container"}[(k+ci)%3]}, f2}
					jobs = append(jobs, Job{S: sq, Rig: "ws", Judge: "ws-fault", Tag: "c19/sequence"})
				}
			}
		}
		add(scn.Fault{Kind: "dial_fail"})
		add(scn.Fault{Kind: "dial_fail", Class: "first"})
		for j := 0; j < nw; j++ {
			if c.Tier == "thorough" || j%3 == i%3 {
				add(scn.Fault{Kind: "write_err", K: j})
			}
		}
		c.Batch(jobs, func(j Job, r *Run, fs []Finding) {
			f := j.S.Faults[len(j.S.Faults)-1]
			if len(j.S.Faults) > 1 {
				c.Probes["fault-sequences (tolerated garbage, then a fault)"]++
			}
			observed := false
			label := ""
			for _, e := range r.Events {
				if e.Ev == "fault" && (e.K == f.K || len(j.S.Faults) == 1) {
					label = e.Label
				}
				if e.Ev == "ul-after-shutdown" {
					c.Probes["shutdown-met-by-a-Write"]++
				}
				if (e.Ev == "read" && e.K == f.K && (e.Err != "" || f.Kind == "garbage")) || e.Ev == "ul-after-shutdown" {
					observed = true
				}
			}
			if f.Kind == "dial_fail" || f.Kind == "write_err" {
				observed = true
			}
			if observed {
				c.Probes["fault-observed-by-emulator"]++
				kind, _ := crashSite(r.StderrText())
				cls := f.Class
				if i := strings.IndexByte(cls, ':'); i > 0 {
					cls = cls[:i]
				}
				distinct[fmt.Sprintf("%s:%s|%s|exit=%d|%s|%d", f.Kind, cls, label, r.Exit, kind, len(j.S.Faults))] = true
			} else {
				c.Probes["fault-in-message-never-read"]++
			}
		})
	}
	c.sigs = distinct
	c.Exhaustive = true
	c.Extra["exhaustive_part"] = "for every seed: every downlink message index of the baseline conversation x {close_before, abort_before, garbage:choice, garbage:prefix, garbage:empty-container} and dial_fail (all / first only) are enumerated completely; the parametrised garbage classes (cut point, inner length, long, short values), write errors and fault sequences are sampled per message in the quick tier and enumerated more widely in the thorough tier (every cut point for one seed in eight, every uplink index for write errors)"
}
