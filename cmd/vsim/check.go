package main

import (
	"encoding/json"
	"fmt"
	"os"
	"path/filepath"
	"sort"
	"strings"
	"sync"
	"time"

	"verifsim/scn"
)

// Known is one entry of /verif/known_findings.json.
type Known struct {
	Status     string   `json:"status"` // "known" or "fixed"
	Properties []string `json:"properties"`
	Key        string   `json:"key"`
	What       string   `json:"what"`
	Commit     string   `json:"commit,omitempty"`
}

type knownFile struct {
	Findings []Known `json:"findings"`
}

func loadKnown() []Known {
	b, err := os.ReadFile(filepath.Join(verifDir(), "known_findings.json"))
	if err != nil {
		return nil
	}
	var k knownFile
	if err := json.Unmarshal(b, &k); err != nil {
		harnessFail("known_findings.json does not parse: %v", err)
	}
	return k.Findings
}

func harnessFail(format string, a ...interface{}) {
	fmt.Fprintf(os.Stderr, "HARNESS-ERROR: "+format+"\n", a...)
	if gEnv != nil {
		gEnv.Cleanup()
	}
	os.Exit(2)
}

var gEnv *Env

// Replay is the on-disk form of a (minimised) failing case.
type Replay struct {
	Property string        `json:"property"`
	Key      string        `json:"key"`
	Detail   string        `json:"detail"`
	Rig      string        `json:"rig"`   // binary: "ws" or a rig name
	Judge    string        `json:"judge"` // oracle name
	Scenario *scn.Scenario `json:"scenario"`
	LogHash  string        `json:"log_hash"`
	Seed     uint64        `json:"seed"`
	Shrunk   string        `json:"shrunk"`
}

// Ctx accumulates what one check run covered and found.
type Ctx struct {
	ID    string
	Tier  string
	Seed  uint64
	Level string
	Env   *Env
	known []Known

	mu         sync.Mutex
	Evals      int
	sigs       map[string]bool
	Faults     map[string]int
	Probes     map[string]int
	Dims       map[string]int
	SimNs      int64
	Samples    []interface{}
	KnownSeen  map[string]string
	Violations []Replay
	violKeys   map[string]bool
	Rule       string
	Assume     []string
	Components map[string][]string
	Extra      map[string]interface{}
	Exhaustive bool
	start      time.Time

	Unreproduced     []string
	Rechecks         int
	Divergences      int
	pendingExtra     []pendingViol
	distinctOverride int
}

func newCtx(id, tier string, seed uint64, level string, env *Env) *Ctx {
	return &Ctx{ID: id, Tier: tier, Seed: seed, Level: level, Env: env, known: loadKnown(), sigs: map[string]bool{},
		Faults: map[string]int{}, Probes: map[string]int{}, Dims: map[string]int{}, KnownSeen: map[string]string{},
		violKeys: map[string]bool{}, Extra: map[string]interface{}{}, start: time.Now(),
		Components: map[string][]string{
			"real": {"stg-utg.go main()", "stgutg", "tglib", "free5gclib/*", "gopkg.in/yaml.v2", "logrus", "wmnsk/milenage", "aead/cmac", "Go runtime (scheduler, GC)"},
			"stub": {"github.com/ishidawataru/sctp (simulated association + reference core)", "Rotchamar/xdp_gtp (recording data plane)", "cilium/ebpf/link (constants)", "wall clock (runtime faketime)"},
		}}
}

func (c *Ctx) isKnown(key string) *Known {
	for i := range c.known {
		k := &c.known[i]
		if k.Status != "known" || k.Key != key {
			continue
		}
		for _, p := range k.Properties {
			if p == c.ID || p == "*" {
				return k
			}
		}
	}
	return nil
}

func (c *Ctx) probe(name string, n int) {
	c.mu.Lock()
	c.Probes[name] += n
	c.mu.Unlock()
}

func (c *Ctx) dim(name string) {
	c.mu.Lock()
	c.Dims[name]++
	c.mu.Unlock()
}

// Judge turns a run into findings.
type Judge func(r *Run) []Finding

var judges = map[string]Judge{}

// Job is one scenario to execute with a given binary and oracle.
type Job struct {
	S     *scn.Scenario
	Rig   string // "ws" or rig name
	Judge string
	Tag   string
}

func (c *Ctx) binFor(rig string) string {
	if rig == "ws" {
		return c.Env.SimBin
	}
	b, err := c.Env.BuildRig(rig, rig == "ps", "")
	if err != nil {
		harnessFail("%v", err)
	}
	return b
}

func workers() int {
	n := 16
	if v := os.Getenv("VSIM_WORKERS"); v != "" {
		fmt.Sscan(v, &n)
	}
	return n
}

// Batch executes jobs on the worker pool, accumulates evidence and handles findings.
// observe, if not nil, is called for every run (under the lock) for probes and cross-run invariants.
func (c *Ctx) Batch(jobs []Job, observe func(j Job, r *Run, fs []Finding)) {
	type res struct {
		j  Job
		r  *Run
		fs []Finding
	}
	nw := workers()
	recheckEvery := uint64(64) // whole-system runs are many and short; rig batches are few and long
	if len(jobs) < 2000 {
		recheckEvery = 8
	}
	type ijob struct {
		Job
		i int
	}
	in := make(chan ijob)
	out := make(chan res, nw)
	var wg sync.WaitGroup
	for w := 0; w < nw; w++ {
		wg.Add(1)
		go func(w int) {
			defer wg.Done()
			for ij := range in {
				j := ij.Job
				r := c.Env.RunBin(c.binFor(j.Rig), w, j.S)
				if r.Exit == 96 {
					// the child refused its scenario or environment: the simulator's own mistake
					harnessFail("child exit 96 for scenario seed %d (%s): %s", j.S.Seed, j.Tag, firstLines(r.StderrText(), 3))
				}
				// determinism probe: one scenario in 64 is executed a second time in another worker
				// directory; event log, de-framed stdout and exit status must be identical
				if long, _ := j.S.Rig["long"].(bool); !long && (uint64(ij.i)*2654435761>>8)%recheckEvery == 0 && !r.TimedOut {
					r2 := c.Env.RunBin(c.binFor(j.Rig), w+nw, j.S)
					c.mu.Lock()
					c.Rechecks++
					if r2.LogHash() != r.LogHash() {
						c.Divergences++
						fmt.Printf("NOTE: scenario seed %d (%s) executed twice gave different logs (%s vs %s)\n", j.S.Seed, j.Tag, r.LogHash(), r2.LogHash())
					}
					c.mu.Unlock()
				}
				out <- res{j, r, judges[j.Judge](r)}
			}
		}(w)
	}
	go func() {
		for i, j := range jobs {
			in <- ijob{j, i}
		}
		close(in)
		wg.Wait()
		close(out)
	}()
	var pendingNew []res
	for x := range out {
		c.mu.Lock()
		c.Evals++
		sig, nt := Signature(x.r)
		if nt {
			c.sigs[sig] = true
		}
		c.SimNs += x.r.SimEnd()
		if x.r.WallMs > 2000 && os.Getenv("VSIM_SLOWLOG") != "" {
			fmt.Fprintf(os.Stderr, "slow run %.0f ms tag=%s seed=%d exit=%d timedout=%v events=%d\n", x.r.WallMs, x.j.Tag, x.j.S.Seed, x.r.Exit, x.r.TimedOut, len(x.r.Events))
		}
		for _, e := range x.r.Events {
			if e.Ev == "fault" {
				c.Faults[strings.SplitN(e.Fault, ":", 2)[0]]++
			}
		}
		c.Dims["latency:"+x.j.S.Lat.Class]++
		if len(c.Samples) < 3 {
			c.Samples = append(c.Samples, map[string]interface{}{"tag": x.j.Tag, "scenario": sampleOf(x.j.S), "exit": x.r.Exit, "signature": sig, "messages": labelsOf(x.r)})
		}
		if observe != nil {
			observe(x.j, x.r, x.fs)
		}
		c.mu.Unlock()
		isNew := false
		for _, f := range x.fs {
			if k := c.isKnown(f.Key); k != nil {
				c.KnownSeen[f.Key] = k.What
			} else if !c.violKeys[f.Key] {
				isNew = true
			}
		}
		if isNew && len(pendingNew) < 64 {
			pendingNew = append(pendingNew, x)
		}
	}
	// shrink and report new findings (sequentially; rare)
	for _, x := range pendingNew {
		for _, f := range x.fs {
			if c.isKnown(f.Key) != nil || c.violKeys[f.Key] {
				continue
			}
			c.violKeys[f.Key] = true
			c.report(x.j, x.r, f)
		}
	}
}

// sampleOf is the scenario as it goes into the evidence file: whole for the conversation rigs, cut
// down to the first history (and its first 40 operations) for the rigs that batch hundreds of
// histories per process, so that the evidence stays a readable size.
func sampleOf(s *scn.Scenario) interface{} {
	hs, ok := s.Rig["histories"].([]interface{})
	if !ok || len(hs) == 0 {
		if cp, ok := s.Rig["corpus"].([]interface{}); ok && len(cp) > 0 {
			t := cloneScn(s)
			t.Rig["corpus"] = cp[:1]
			t.Rig["note"] = fmt.Sprintf("sample shows 1 of %d corpus messages of this process", len(cp))
			return t
		}
		return s
	}
	t := cloneScn(s)
	h0, _ := t.Rig["histories"].([]interface{})[0].(map[string]interface{})
	if ops, ok := h0["ops"].([]interface{}); ok && len(ops) > 40 {
		h0["ops"] = ops[:40]
		h0["note"] = fmt.Sprintf("sample shows the first 40 of %d operations", len(ops))
	}
	t.Rig["histories"] = []interface{}{h0}
	t.Rig["note"] = fmt.Sprintf("sample shows 1 of %d histories of this process", len(hs))
	return t
}

func labelsOf(r *Run) []string {
	var out []string
	for _, e := range r.Events {
		if e.Ev == "ul" || e.Ev == "dl" || e.Ev == "fault" {
			s := e.Ev + ":" + e.Label
			if e.Ev == "fault" {
				s = "fault:" + e.Fault
			}
			out = append(out, s)
		}
	}
	if len(out) > 60 {
		out = append(out[:60], fmt.Sprintf("... %d more", len(out)-60))
	}
	return out
}

// report minimises a failing scenario, writes the replay file and prints the VIOLATION line.
func (c *Ctx) report(j Job, r *Run, f Finding) {
	s := j.S
	steps := 0
	if os.Getenv("VSIM_NOSHRINK") == "" {
		var rr *Run
		s, rr, steps = shrink(c, j, f.Key)
		if rr == nil {
			// Four fresh executions of the identical scenario did not show the finding. The simulation
			// is deterministic (one scenario = one execution), so a verdict that depends on the
			// machine's clock or load - the CPU watchdog, the wall-clock backstop, a child killed from
			// outside - was an artefact of the environment, not of the code under test: it is recorded
			// in the evidence and not reported. Any other verdict was computed from the recorded event
			// log and is reported with the original scenario, marked as not reproduced.
			if envDependent(f.Key) {
				fmt.Printf("NOTE: %s fired once (scenario seed %d) and not in %d fresh executions of the same scenario; environment artefact, not reported\n", f.Key, j.S.Seed, steps)
				c.mu.Lock()
				c.Unreproduced = append(c.Unreproduced, f.Key)
				c.mu.Unlock()
				return
			}
			s = j.S
		} else {
			r = rr
		}
	}
	fs := judges[j.Judge](r)
	detail := f.Detail
	for _, g := range fs {
		if g.Key == f.Key {
			detail = g.Detail
		}
	}
	rp := Replay{Property: c.ID, Key: f.Key, Detail: detail, Rig: j.Rig, Judge: j.Judge, Scenario: s, LogHash: r.LogHash(), Seed: j.S.Seed,
		Shrunk: fmt.Sprintf("%d re-executions", steps)}
	c.writeReplay(rp)
}

// envDependent tells whether a finding's verdict rests on the machine (time budgets, a killed child)
// rather than on the recorded event log.
func envDependent(key string) bool {
	for _, p := range []string{"watchdog", "rig.died", "dec.slow", "failstop.watchdog", "extract.nontermination", "out-of-memory"} {
		if strings.Contains(key, p) {
			return true
		}
	}
	return false
}

func keyHash(k string) string {
	h := uint32(2166136261)
	for i := 0; i < len(k); i++ {
		h = (h ^ uint32(k[i])) * 16777619
	}
	return fmt.Sprintf("%08x", h)
}

func (c *Ctx) writeReplay(rp Replay) {
	dir := filepath.Join(outDir(), "replays")
	os.MkdirAll(dir, 0755)
	path := filepath.Join(dir, fmt.Sprintf("%s-%s-%d.json", c.ID, keyHash(rp.Key), rp.Seed))
	b, _ := json.MarshalIndent(rp, "", " ")
	os.WriteFile(path, b, 0644)
	c.mu.Lock()
	c.Violations = append(c.Violations, rp)
	c.mu.Unlock()
	fmt.Printf("VIOLATION property=%s replay=%s\n", c.ID, path)
	fmt.Printf("  key=%s\n  detail=%s\n", rp.Key, rp.Detail)
}

// Finish writes the evidence file, prints known findings and exits.
func (c *Ctx) Finish() {
	keys := make([]string, 0, len(c.KnownSeen))
	for k := range c.KnownSeen {
		keys = append(keys, k)
	}
	sort.Strings(keys)
	for _, k := range keys {
		fmt.Printf("KNOWN-FINDING: property=%s %s %s\n", c.ID, k, c.KnownSeen[k])
	}
	wall := time.Since(c.start).Seconds()
	distinct := len(c.sigs)
	if c.distinctOverride > 0 {
		distinct = c.distinctOverride
	}
	cov := map[string]interface{}{
		"evaluations":                        c.Evals,
		"distinct_nontrivial":                distinct,
		"rule":                               c.Rule,
		"samples":                            c.Samples,
		"faults_fired":                       c.Faults,
		"reach_probes":                       c.Probes,
		"swarm_dimensions":                   c.Dims,
		"simulated_seconds":                  float64(c.SimNs) / 1e9,
		"runs_per_hour":                      float64(c.Evals) / wall * 3600,
		"components":                         c.Components,
		"known_findings_seen":                keys,
		"unreproduced_environment_artefacts": c.Unreproduced,
		"determinism_reexecutions":           c.Rechecks,
		"determinism_divergences":            c.Divergences,
	}
	if c.Exhaustive {
		cov["exhaustive"] = true
	}
	for k, v := range c.Extra {
		cov[k] = v
	}
	if len(c.Samples) == 0 {
		cov["samples"] = []interface{}{"no case was executed"}
	}
	ev := map[string]interface{}{
		"property_id": c.ID, "tier": c.Tier, "seed": int64(c.Seed & 0x7fffffffffffffff), "level": c.Level,
		"coverage": cov, "assumptions": c.Assume, "wall_s": wall, "violations": len(c.Violations),
	}
	b, _ := json.MarshalIndent(ev, "", " ")
	dir := filepath.Join(outDir(), "evidence")
	os.MkdirAll(dir, 0755)
	if err := os.WriteFile(filepath.Join(dir, c.ID+".json"), b, 0644); err != nil {
		harnessFail("cannot write evidence: %v", err)
	}
	fmt.Printf("%s %s: %d evaluations, %d distinct non-trivial signatures, %.1f simulated s, %d violation(s), %d known finding(s), %.1fs wall\n",
		c.ID, c.Tier, c.Evals, distinct, float64(c.SimNs)/1e9, len(c.Violations), len(keys), wall)
	c.Env.Cleanup()
	if len(c.Violations) > 0 {
		os.Exit(1)
	}
	os.Exit(0)
}
