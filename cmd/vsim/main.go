// vsim is the parent of the deterministic simulation: it builds the emulator
// from /repo's working tree with the simulated transport, generates scenarios
// from VERIF_SEED, executes them as child processes on the fake clock, applies
// the oracles, minimises failures into replay files and writes the evidence.
package main

import (
	"encoding/json"
	"fmt"
	"os"
	"strconv"
)

type checkDef struct {
	level string
	run   func(c *Ctx)
	seed  uint64
}

var checks = map[string]checkDef{}

func init() {
	checks["C01"] = checkDef{"exploration", checkC01, 101}
	checks["C02"] = checkDef{"exploration", checkC02, 102}
	checks["C11"] = checkDef{"exploration", checkC11, 111}
	checks["C16"] = checkDef{"exploration", checkC16, 116}
	checks["C18"] = checkDef{"exploration", checkC18, 118}
	checks["C19"] = checkDef{"fault_enumeration", checkC19, 119}
}

func usage() {
	fmt.Fprintln(os.Stderr, "usage: vsim check <property> [--tier quick|thorough] | vsim replay <file> | vsim selftest determinism")
	os.Exit(2)
}

func main() {
	if len(os.Args) < 2 {
		usage()
	}
	defer func() {
		if p := recover(); p != nil {
			fmt.Fprintf(os.Stderr, "HARNESS-ERROR: %v\n", p)
			if gEnv != nil {
				gEnv.Cleanup()
			}
			os.Exit(2)
		}
	}()
	switch os.Args[1] {
	case "check":
		if len(os.Args) < 3 {
			usage()
		}
		id := os.Args[2]
		tier := os.Getenv("VERIF_TIER")
		for i := 3; i < len(os.Args); i++ {
			if os.Args[i] == "--tier" && i+1 < len(os.Args) {
				tier = os.Args[i+1]
			}
		}
		if tier == "" {
			tier = "quick"
		}
		def, ok := checks[id]
		if !ok {
			fmt.Fprintln(os.Stderr, "unknown property", id)
			os.Exit(2)
		}
		seed := def.seed
		if v := os.Getenv("VERIF_SEED"); v != "" {
			n, err := strconv.ParseUint(v, 10, 64)
			if err != nil {
				if m, err2 := strconv.ParseInt(v, 10, 64); err2 == nil {
					n = uint64(m)
				} else {
					fmt.Fprintln(os.Stderr, "VERIF_SEED is not an integer")
					os.Exit(2)
				}
			}
			seed = n*1000003 + def.seed
		}
		fmt.Printf("vsim check %s tier=%s seed=%d\n", id, tier, seed)
		env, err := Prepare()
		gEnv = env
		if err != nil {
			harnessFail("%v", err)
		}
		c := newCtx(id, tier, seed, def.level, env)
		def.run(c)
		c.Finish()
	case "replay":
		if len(os.Args) < 3 {
			usage()
		}
		replay(os.Args[2])
	case "selftest":
		selftest(os.Args[2:])
	default:
		usage()
	}
}

func replay(path string) {
	b, err := os.ReadFile(path)
	if err != nil {
		harnessFail("%v", err)
	}
	var rp Replay
	if err := json.Unmarshal(b, &rp); err != nil {
		harnessFail("replay file: %v", err)
	}
	env, err := Prepare()
	gEnv = env
	if err != nil {
		harnessFail("%v", err)
	}
	c := newCtx(rp.Property, "replay", rp.Seed, "exploration", env)
	r := env.RunBin(c.binFor(rp.Rig), 0, rp.Scenario)
	fs := judges[rp.Judge](r)
	hit := false
	for _, f := range fs {
		if f.Key == rp.Key {
			hit = true
			fmt.Printf("REPRODUCED key=%s\n  detail=%s\n", f.Key, f.Detail)
		}
	}
	h := r.LogHash()
	fmt.Printf("log hash %s (recorded %s) exit=%d\n", h, rp.LogHash, r.Exit)
	if os.Getenv("VSIM_VERBOSE") != "" {
		os.Stdout.Write(r.RawLog)
		fmt.Println(r.StdoutText())
		fmt.Println(r.StderrText())
	}
	env.Cleanup()
	if hit && h == rp.LogHash {
		fmt.Printf("VIOLATION property=%s replay=%s\n", rp.Property, path)
		os.Exit(1)
	}
	if hit {
		fmt.Println("the violation reproduces but the execution differs from the recorded one")
		os.Exit(1)
	}
	fmt.Println("NOT REPRODUCED on the current tree")
	os.Exit(0)
}
