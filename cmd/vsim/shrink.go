package main

import (
	"encoding/json"

	"verifsim/scn"
)

func cloneScn(s *scn.Scenario) *scn.Scenario {
	b, _ := json.Marshal(s)
	out := &scn.Scenario{}
	json.Unmarshal(b, out)
	return out
}

// transforms proposes simpler variants of a scenario, most aggressive first.
func transforms(s *scn.Scenario) []*scn.Scenario {
	var out []*scn.Scenario
	add := func(f func(t *scn.Scenario) bool) {
		t := cloneScn(s)
		if f(t) {
			out = append(out, t)
		}
	}
	// fewer faults
	for i := range s.Faults {
		i := i
		add(func(t *scn.Scenario) bool { t.Faults = append(t.Faults[:i], t.Faults[i+1:]...); return true })
	}
	// timing
	add(func(t *scn.Scenario) bool {
		if t.Lat.Class == "zero" && t.Lat.UL == 0 && len(t.Lat.DL) == 0 && len(t.Lat.Proc) == 0 {
			return false
		}
		t.Lat = scn.Latency{Class: "zero"}
		return true
	})
	add(func(t *scn.Scenario) bool {
		if len(t.Lat.DL) <= 1 {
			return false
		}
		max := int64(0)
		for _, d := range t.Lat.DL {
			if d > max {
				max = d
			}
		}
		t.Lat.DL = []int64{max}
		return true
	})
	// counts
	cnt := func(get func(c *scn.Config) *int) {
		for _, v := range []int{0, 1, 2} {
			v := v
			add(func(t *scn.Scenario) bool {
				p := get(&t.Config)
				if *p <= v {
					return false
				}
				*p = v
				return true
			})
		}
		add(func(t *scn.Scenario) bool {
			p := get(&t.Config)
			if *p <= 3 {
				return false
			}
			*p = *p / 2
			return true
		})
	}
	cnt(func(c *scn.Config) *int { return &c.NDereg })
	cnt(func(c *scn.Config) *int { return &c.NRel })
	cnt(func(c *scn.Config) *int { return &c.NSvc })
	cnt(func(c *scn.Config) *int { return &c.NPdu })
	cnt(func(c *scn.Config) *int { return &c.NReg })
	cnt(func(c *scn.Config) *int { return &c.UENumber })
	// network choices
	add(func(t *scn.Scenario) bool {
		if len(t.UEs) == 0 {
			return false
		}
		t.UEs = t.UEs[:len(t.UEs)-1]
		return true
	})
	for i := range s.UEs {
		i := i
		add(func(t *scn.Scenario) bool {
			u := &t.UEs[i]
			if u.AuthOptIEs|u.SMCOpt|u.ICSOpt|u.RegAccOpt|u.CUCOpt|u.AccOpt|u.TransOpt|u.SetupOpt == 0 && u.AccLens == nil {
				return false
			}
			u.AuthOptIEs, u.SMCOpt, u.ICSOpt, u.RegAccOpt, u.CUCOpt, u.AccOpt, u.TransOpt, u.SetupOpt, u.AccLens = 0, 0, 0, 0, 0, 0, 0, 0, nil
			return true
		})
		add(func(t *scn.Scenario) bool {
			u := &t.UEs[i]
			if u.Fill == 0 && u.CauseVal == 0 {
				return false
			}
			u.Fill, u.CauseVal = 0, 0
			return true
		})
		add(func(t *scn.Scenario) bool {
			u := &t.UEs[i]
			if u.QoSRuleLen == 6 {
				return false
			}
			u.QoSRuleLen = 6
			return true
		})
		add(func(t *scn.Scenario) bool {
			u := &t.UEs[i]
			if u.AmfUeID == int64(i+1) {
				return false
			}
			for j := range t.UEs {
				if t.UEs[j].AmfUeID == int64(i+1) {
					return false
				}
			}
			u.AmfUeID = int64(i + 1)
			return true
		})
		add(func(t *scn.Scenario) bool {
			u := &t.UEs[i]
			if u.RAND == "00000000000000000000000000000000" && u.SQN == "000000000000" {
				return false
			}
			u.RAND, u.SQN, u.AMFField = "00000000000000000000000000000000", "000000000000", "8000"
			return true
		})
		add(func(t *scn.Scenario) bool {
			u := &t.UEs[i]
			if u.RadioCapLen == 0 {
				return false
			}
			u.RadioCapLen = 0
			return true
		})
		add(func(t *scn.Scenario) bool {
			u := &t.UEs[i]
			if u.SessAMBR == "" {
				return false
			}
			u.SessAMBR = ""
			return true
		})
		add(func(t *scn.Scenario) bool {
			u := &t.UEs[i]
			if u.AMBRDL == 1000 && u.AMBRUL == 1000 {
				return false
			}
			u.AMBRDL, u.AMBRUL = 1000, 1000
			return true
		})
	}
	return out
}

// shrink greedily minimises the scenario of job j while finding `key` keeps firing.
func shrink(c *Ctx, j Job, key string) (*scn.Scenario, *Run, int) {
	bin := c.binFor(j.Rig)
	judge := judges[j.Judge]
	fires := func(s *scn.Scenario) (*Run, bool) {
		r := c.Env.RunBin(bin, 0, s)
		for _, f := range judge(r) {
			if f.Key == key {
				return r, true
			}
		}
		return r, false
	}
	cur := j.S
	curRun, ok := fires(cur)
	steps := 1
	for !ok && steps < 4 { // a deterministic simulation reproduces at once; try a few times before concluding otherwise
		curRun, ok = fires(cur)
		steps++
	}
	if !ok {
		// not reproducible in fresh processes: the caller decides what that means
		return j.S, nil, steps
	}
	if _, custom := j.S.Rig["no_shrink"]; custom {
		return cur, curRun, steps
	}
	if _, ok := j.S.Rig["histories"]; ok {
		return shrinkHistories(cur, curRun, key, fires, steps)
	}
	if _, ok := j.S.Rig["tasks"]; ok {
		return shrinkSchedule(cur, curRun, key, fires, steps)
	}
	for progress := true; progress && steps < 300; {
		progress = false
		for _, t := range transforms(cur) {
			if steps >= 300 {
				break
			}
			r, ok := fires(t)
			steps++
			if ok {
				cur, curRun, progress = t, r, true
				break
			}
		}
	}
	return cur, curRun, steps
}

// shrinkHistories reduces a batch of histories to the single failing one and then removes
// operations from it (delta debugging on the op list) while the same key keeps firing.
func shrinkHistories(cur *scn.Scenario, curRun *Run, key string, fires func(*scn.Scenario) (*Run, bool), steps int) (*scn.Scenario, *Run, int) {
	hs, _ := cur.Rig["histories"].([]interface{})
	// which history fired?
	idx := -1
	for _, e := range curRun.Events {
		if e.Ev == "viol" && e.Label == key {
			idx = e.I
			break
		}
	}
	if idx >= 0 && idx < len(hs) && len(hs) > 1 {
		t := cloneScn(cur)
		t.Rig["histories"] = []interface{}{hs[idx]}
		if r, ok := fires(t); ok {
			cur, curRun = t, r
		}
		steps++
	}
	hs, _ = cur.Rig["histories"].([]interface{})
	if len(hs) > 1 {
		// the failure needs more than one history in the process (state carried from one to the
		// next): delta-debug the list of histories instead
		for chunk := len(hs) / 2; chunk >= 1 && steps < 200; {
			hs, _ = cur.Rig["histories"].([]interface{})
			removed := false
			for start := 0; start+chunk <= len(hs) && steps < 200; start += chunk {
				cand := append(append([]interface{}{}, hs[:start]...), hs[start+chunk:]...)
				if len(cand) == 0 {
					continue
				}
				t := cloneScn(cur)
				t.Rig["histories"] = cand
				r, ok := fires(t)
				steps++
				if ok {
					cur, curRun, removed = t, r, true
					break
				}
			}
			if !removed {
				chunk /= 2
			}
		}
		return cur, curRun, steps
	}
	opsOf := func(s *scn.Scenario) []interface{} {
		h := s.Rig["histories"].([]interface{})[0].(map[string]interface{})
		o, _ := h["ops"].([]interface{})
		return o
	}
	withOps := func(s *scn.Scenario, ops []interface{}) *scn.Scenario {
		t := cloneScn(s)
		t.Rig["histories"].([]interface{})[0].(map[string]interface{})["ops"] = ops
		return t
	}
	for chunk := len(opsOf(cur)) / 2; chunk >= 1 && steps < 300; {
		ops := opsOf(cur)
		removed := false
		for start := 0; start+chunk <= len(ops) && steps < 300; start += chunk {
			cand := append(append([]interface{}{}, ops[:start]...), ops[start+chunk:]...)
			t := withOps(cur, cand)
			r, ok := fires(t)
			steps++
			if ok {
				cur, curRun, removed = t, r, true
				break
			}
		}
		if !removed {
			chunk /= 2
		} else if chunk > len(opsOf(cur)) {
			chunk = len(opsOf(cur))
		}
	}
	return cur, curRun, steps
}

// shrinkSchedule turns the seeded schedule of a controlled-concurrency run into an explicit
// decision list and removes context switches while the same key keeps firing.
func shrinkSchedule(cur *scn.Scenario, curRun *Run, key string, fires func(*scn.Scenario) (*Run, bool), steps int) (*scn.Scenario, *Run, int) {
	var sched []interface{}
	for _, e := range curRun.Events {
		if e.Ev == "cc" {
			sched, _ = e.Info["schedule"].([]interface{})
		}
	}
	if sched == nil {
		return cur, curRun, steps
	}
	t := cloneScn(cur)
	t.Rig["schedule"] = sched
	r, ok := fires(t)
	steps++
	if !ok {
		return cur, curRun, steps // the explicit form does not reproduce: keep the seeded one
	}
	cur, curRun = t, r
	for chunk := len(sched) / 2; chunk >= 1 && steps < 300; {
		sch := cur.Rig["schedule"].([]interface{})
		removed := false
		for start := 1; start+chunk <= len(sch) && steps < 300; start += chunk { // keep decision 0 (who starts)
			cand := append(append([]interface{}{}, sch[:start]...), sch[start+chunk:]...)
			t := cloneScn(cur)
			t.Rig["schedule"] = cand
			r, ok := fires(t)
			steps++
			if ok {
				cur, curRun, removed = t, r, true
				break
			}
		}
		if !removed {
			chunk /= 2
		}
	}
	return cur, curRun, steps
}
