package main

import (
	"encoding/binary"
	"encoding/hex"
	"fmt"
	"os"
	"path/filepath"
	"strconv"
	"strings"

	"verifsim/kernel"
	"verifsim/ref/crypto"
	"verifsim/scn"
)

func init() {
	checks["C06"] = checkDef{"exploration", checkC06, 106}
	checks["C10"] = checkDef{"exploration", checkC10, 110}
	checks["C15"] = checkDef{"exploration", checkC15, 115}
	checks["C14"] = checkDef{"fault_enumeration", checkC14, 114}
	judges["ls"] = judgeLS
}

// judgeLS collects the verdicts an in-process rig logged and judges how the process ended.
func judgeLS(r *Run) []Finding {
	var fs []Finding
	done := false
	for _, e := range r.Events {
		switch e.Ev {
		case "viol":
			d, _ := e.Info["detail"].(string)
			fs = addFinding(fs, e.Label, d, -1)
		case "done":
			done = true
		}
	}
	if !done {
		kind, where := crashSite(r.StderrText())
		switch {
		case r.TimedOut:
			fs = addFinding(fs, "rig.watchdog@"+progressOf(r), "the rig was still running at the wall-clock watchdog (non-terminating call)", -1)
		case kind != "":
			fs = addFinding(fs, "rig."+kind+"@"+where, firstLines(r.StderrText(), 6)+" "+progressOf(r), -1)
		default:
			fs = addFinding(fs, "rig.died@"+progressOf(r), fmt.Sprintf("exit %d signal %q: %s", r.Exit, r.Signal, firstLines(r.StderrText(), 4)), -1)
		}
	}
	return fs
}

func progressOf(r *Run) string {
	if len(r.Progress) >= 8 {
		return fmt.Sprintf("corpus#%d/mutation#%d", binary.BigEndian.Uint32(r.Progress[0:]), int32(binary.BigEndian.Uint32(r.Progress[4:])))
	}
	return "unknown"
}

func lsScenario(seed uint64, rig string, hs []interface{}) *scn.Scenario {
	return &scn.Scenario{Seed: seed, Profile: "ls-" + rig, Args: []string{}, Rig: map[string]interface{}{"rig": rig, "histories": hs, "cpu_s": float64(120)},
		Config: scn.Config{K: "00000000000000000000000000000000", OPC: "00000000000000000000000000000000", MCC: "001", MNC: "01", IMSI: "001010000000001"}}
}

var ulKinds = []string{"regcomplete", "smc", "authresp", "dereg", "est", "relreq", "svc", "gsm-est", "gsm-rel", "gsm-mod", "ulnas-rt", "ulnas-min"}
var dlKinds = []string{"authreq", "smc", "regaccept", "cuc", "svcaccept", "deregaccept", "dlnas", "authresult", "authreject", "idreq", "svcreject", "regreject"}

func genMsg(r *kernel.Rand, kinds []string) map[string]interface{} {
	return map[string]interface{}{"kind": kinds[r.Intn(len(kinds))], "len": r.Pick(0, 1, 2, 3, 4, 5, 7, 8, 15, 16, 17, 31, 32, 33, r.Range(0, 200)), "seed": r.Intn(1 << 30)}
}

var algPairs = [][2]int{{0, 1}, {0, 2}, {1, 1}, {1, 2}, {2, 1}, {2, 2}} // {nea, nia}

// ---------- C06 ----------

func genULHistory(r *kernel.Rand, maxOps int) map[string]interface{} {
	p := algPairs[r.Intn(len(algPairs))]
	h := map[string]interface{}{"nea": p[0], "nia": p[1], "kenc": hex.EncodeToString(boundary128(r)), "kint": hex.EncodeToString(boundary128(r)),
		"dl_overflow": r.Intn(65536), "dl_sqn": r.Intn(256)}
	// initial state only: place the history just before a wrap
	switch r.Intn(5) {
	case 0:
		h["start_overflow"], h["start_sqn"] = r.Intn(65536), 256-r.Range(1, 6)
	case 1:
		h["start_overflow"], h["start_sqn"] = 65535, 256-r.Range(1, 6)
	default:
		h["start_overflow"], h["start_sqn"] = 0, 0
	}
	var ops []interface{}
	n := r.Range(1, maxOps)
	for i := 0; i < n; i++ {
		switch x := r.Intn(20); {
		case x == 0:
			ops = append(ops, map[string]interface{}{"op": "newctx", "sht": 4, "msg": genMsg(r, ulKinds)})
		case x == 1:
			ops = append(ops, map[string]interface{}{"op": "plain", "sht": 0, "msg": genMsg(r, ulKinds)})
		case x == 2:
			ops = append(ops, map[string]interface{}{"op": "rekey", "kenc": hex.EncodeToString(r.Bytes(16)), "kint": hex.EncodeToString(r.Bytes(16))})
		case x == 3:
			ops = append(ops, map[string]interface{}{"op": []string{"bad", "bad-direct"}[r.Intn(2)], "sht": r.Pick(1, 2, 3, 4), "which": r.Intn(15)})
		default:
			ops = append(ops, map[string]interface{}{"op": "send", "sht": r.Pick(1, 2, 2, 2, 3, 4), "msg": genMsg(r, ulKinds)})
		}
	}
	h["ops"] = ops
	return h
}

func lsProbes(c *Ctx, r *Run, names ...string) {
	for _, e := range r.Events {
		if e.Ev != "hist" {
			continue
		}
		for _, n := range names {
			if f, ok := e.Info[n].(float64); ok {
				c.Probes[n] += int(f)
			}
		}
	}
}

func histSig(h map[string]interface{}) string {
	var b strings.Builder
	fmt.Fprintf(&b, "%v/%v|", h["nea"], h["nia"])
	ops, _ := h["ops"].([]interface{})
	for _, o := range ops {
		m := o.(map[string]interface{})
		fmt.Fprintf(&b, "%v%v", m["op"], m["sht"])
		if mm, ok := m["msg"].(map[string]interface{}); ok {
			fmt.Fprintf(&b, "%v%v", mm["kind"], mm["len"])
		}
		if d, _ := m["drop"].(bool); d {
			b.WriteString("x")
		}
		if f, _ := m["fault"].(string); f != "" {
			b.WriteString(f)
		}
		b.WriteString(",")
	}
	return keyHash(b.String())
}

func checkC06(c *Ctx) {
	nHist, maxOps, per := 40000, 40, 250
	if c.Tier == "thorough" {
		nHist, maxOps, per = 400000, 60, 500
	}
	c.Rule = "evaluation = one send history (generated operation sequence: send with header type 1..4, new-context send, plain send, rekey; initial state optionally just before the 256 / 2^24 wrap) executed against a real tglib.RanUeContext through EncodeNasPduWithSecurity/NASEncode; after every operation the bytes are compared with the reference model (COUNT = messages since the context was taken into use, SQN octet, reference 128-NIAx MAC over SQN||message, reference 128-NEAx ciphertext under header types 2/4 and clear text under 1/3) and the counters are read back; plus the exhaustive sweep of all 2^24 values of the counter type (thorough also walks 2^24+300 real sends across the COUNT wrap). distinct = distinct (algorithm pair, operation/length sequence); non-trivial = at least one protected send"
	c.Assume = []string{"the reference crypto (verifsim/ref/crypto) is the oracle; it was cross-validated against TS 35.207/RFC 4493/SNOW 3G test set 1 vectors",
		"the submitted plain message is taken as the library's own decode+encode of the bytes, which isolates the security layer from the NAS codec (C08)",
		"real code: tglib.NASEncode/EncodeNasPduWithSecurity, free5gclib nas + security + snow3g + aead/cmac; stub: none (the channel is the returned byte slice)"}
	c.Components = map[string][]string{"real": {"tglib (security.go, packet.go, ranUe.go)", "free5gclib/nas", "free5gclib/nas/security", "free5gclib/nas/security/snow3g", "aead/cmac"}, "stub": {"none: in-process link rig, the receiver is the reference model"}}
	root := kernel.New(c.Seed).Sub("c06")
	var jobs []Job
	sigs := map[string]bool{}
	for i := 0; i < nHist; i += per {
		var hs []interface{}
		for k := 0; k < per; k++ {
			h := genULHistory(root, maxOps)
			sigs[histSig(h)] = true
			hs = append(hs, h)
		}
		jobs = append(jobs, Job{S: lsScenario(root.Uint64(), "ul", hs), Rig: "ls", Judge: "ls", Tag: "c06-history"})
		if len(jobs) >= 48 || i+per >= nHist { // in chunks: a thorough run's histories do not fit in memory all at once
			c.Batch(jobs, func(j Job, r *Run, fs []Finding) {
				c.Evals += per - 1
				lsProbes(c, r, "wraps256", "wraps24", "ops")
			})
			jobs = nil
		}
	}
	// exhaustive counter sweep (+ walk)
	s := lsScenario(root.Uint64(), "count", nil)
	s.Rig["no_shrink"] = true
	if c.Tier == "thorough" {
		s.Rig["walk"], s.Rig["walk_start"] = (1<<24)+300, 0xffffff-100
		s.Rig["long"] = true
	} else {
		s.Rig["walk"], s.Rig["walk_start"] = 2000, 0xffffff-1000
	}
	c.Batch([]Job{{S: s, Rig: "ls", Judge: "ls", Tag: "c06-counter-sweep"}}, func(j Job, r *Run, fs []Finding) {
		lsProbes(c, r, "values", "walked")
	})
	c.Extra["exhaustive_part"] = "all 2^24 values of security.Count (Set/Get/AddOne/SQN/Overflow/SetSQN/SetOverflow)"
	c.sigs = sigs
}

// ---------- C10 ----------

func genDLHistory(r *kernel.Rand, maxOps int) map[string]interface{} {
	p := algPairs[r.Intn(len(algPairs))]
	h := map[string]interface{}{"nea": p[0], "nia": p[1], "kenc": hex.EncodeToString(boundary128(r)), "kint": hex.EncodeToString(boundary128(r)), "authenticated": r.Sub("auth").Bool()}
	switch r.Intn(4) {
	case 0:
		h["start_overflow"], h["start_sqn"] = r.Intn(65535), 256-r.Range(1, 40)
	default:
		h["start_overflow"], h["start_sqn"] = 0, 0
	}
	var ops []interface{}
	n := r.Range(1, maxOps)
	dropRun := 0
	for i := 0; i < n; i++ {
		op := map[string]interface{}{"op": "send", "sht": r.Pick(0, 1, 2, 2, 2, 2), "msg": genMsg(r, dlKinds), "via": []string{"direct", "direct", "ngap"}[r.Intn(3)]}
		if r.Chance(1, 25) {
			op["sht"] = r.Pick(3, 4)
			if r.Chance(1, 3) {
				// the first message of the new context is lost; the AMF retransmits it (T3560) with its
				// next sequence number, still marked as taking a new context into use
				lost := map[string]interface{}{"op": "send", "sht": op["sht"], "msg": genMsg(r, dlKinds), "via": "direct", "drop": true, "force_drop": true}
				ops = append(ops, lost)
				for k := 0; k < r.Intn(3); k++ {
					ops = append(ops, map[string]interface{}{"op": "send", "sht": op["sht"], "msg": genMsg(r, dlKinds), "via": "direct", "drop": true, "force_drop": true, "retx": true})
				}
				op["retx"] = true
			}
		}
		if sh, _ := op["sht"].(int); sh != 0 && sh != 3 && sh != 4 && r.Sub(fmt.Sprint("cm", i)).Chance(1, 12) {
			op["corrupt_mac"] = r.Sub(fmt.Sprint("cmv", i)).Intn(32)
		}
		if r.Chance(1, 4) && dropRun < 250 {
			op["drop"] = true
			dropRun++
			// bursts of losses create long gaps in the sequence numbers: short ones, and ones of more
			// than half the sequence-number space (up to 250 in a row)
			if r.Chance(1, 3) {
				burst := r.Range(1, 60)
				if r.Chance(1, 4) {
					burst = r.Range(120, 249)
				}
				for k := 0; k < burst && dropRun < 250; k++ {
					ops = append(ops, map[string]interface{}{"op": "send", "sht": 2, "msg": genMsg(r, dlKinds), "via": "direct", "drop": true})
					dropRun++
				}
			}
		} else {
			dropRun = 0
		}
		ops = append(ops, op)
	}
	// no receiver can follow a gap of 256 or more sequence numbers: cap every run of losses at 250
	run := 0
	pendingNew := false // the message that takes a new context into use was lost and not yet retransmitted
	for _, o := range ops {
		m := o.(map[string]interface{})
		sh, _ := m["sht"].(int)
		if sh == 0 {
			continue // a plain message carries no sequence number: it neither widens nor closes a gap
		}
		forced, _ := m["force_drop"].(bool)
		if d, _ := m["drop"].(bool); d && ((sh != 3 && sh != 4) || forced) {
			if sh == 3 || sh == 4 {
				pendingNew = true
			}
			run++
			if run > 250 {
				m["drop"] = false
				delete(m, "force_drop")
				if pendingNew { // the one that gets through must be the retransmitted new-context message
					m["sht"], m["retx"] = 3, true
					delete(m, "corrupt_mac")
					pendingNew = false
				}
				run = 0
			}
		} else if _, bad := m["corrupt_mac"]; !bad {
			run = 0
			if sh == 3 || sh == 4 {
				pendingNew = false
			}
		}
	}
	h["ops"] = ops
	return h
}

// dlTypeOf is the message type octet of each downlink kind (the third octet of the plain message).
var dlTypeOf = map[string]byte{"authreq": 0x56, "smc": 0x5d, "regaccept": 0x42, "cuc": 0x54, "svcaccept": 0x4e, "deregaccept": 0x46, "dlnas": 0x68,
	"authresult": 0x5a, "authreject": 0x58, "idreq": 0x5b, "svcreject": 0x4d, "regreject": 0x44}

// lookalikeHistory searches a ciphering key under which the first ciphered message of the history
// comes out with a ciphertext that itself begins like a plain 5GMM message (7e 00 <message type>):
// a receiver that guesses "this was not ciphered after all" from the octets is wrong exactly there.
func lookalikeHistory(r *kernel.Rand, maxOps int) map[string]interface{} {
	h := genDLHistory(r, maxOps)
	nea := 2
	h["nea"], h["nia"] = nea, 1+r.Intn(2)
	ov, sq := r.Intn(65535), r.Intn(250)
	h["start_overflow"], h["start_sqn"] = ov, sq
	count := uint32(ov)<<8 | uint32(sq)
	kind := dlKinds[r.Intn(len(dlKinds))]
	t := dlTypeOf[kind]
	key := make([]byte, 16)
	for tries := 0; tries < 6000000; tries++ {
		x := r.Uint64()
		y := r.Uint64()
		for i := 0; i < 8; i++ {
			key[i], key[8+i] = byte(x>>(8*uint(i))), byte(y>>(8*uint(i)))
		}
		ks, _ := crypto.Cipher(byte(nea), key, count, 1, 1, []byte{0, 0, 0})
		if ks[0] == 0 && ks[1] == 0 {
			if ct := t ^ ks[2]; ct >= 65 && ct <= 104 {
				h["kenc"] = hex.EncodeToString(key)
				h["lookalike"] = true
				break
			}
		}
	}
	first := map[string]interface{}{"op": "send", "sht": 2, "msg": map[string]interface{}{"kind": kind, "len": r.Intn(20), "seed": r.Intn(1 << 30)}, "via": "ngap"}
	ops, _ := h["ops"].([]interface{})
	h["ops"] = append([]interface{}{first}, ops...)
	return h
}

func checkC10(c *Ctx) {
	nHist, maxOps, per := 30000, 40, 150
	if c.Tier == "thorough" {
		nHist, maxOps, per = 300000, 80, 300
	}
	c.Rule = "evaluation = one downlink history: a reference AMF protects plain messages (plain / integrity only / ciphered / new-context header types) with its own COUNT, a lossy channel drops some (runs of up to 200 losses create the skipped sequence numbers and 8-bit wraps), and the real tglib.NASDecode (directly, or through GetNasPdu on a DownlinkNASTransport built by the reference encoder and decoded by ngap.Decoder) must return the message the AMF protected and hold the AMF's COUNT. distinct = distinct (algorithm pair, operation/length/loss sequence); non-trivial = at least one protected message delivered"
	c.Assume = []string{"the expected message is the library's own plain decode of the plain bytes (isolates the security layer from the codec); plain messages the codec refuses are not sent and are counted as excluded",
		"loss runs stay below 256 messages: beyond that no receiver can estimate COUNT and the statement makes no claim",
		"the MAC check result is not part of the statement (the emulator only prints a mismatch)"}
	c.Components = map[string][]string{"real": {"tglib.NASDecode, tglib.GetNasPdu", "free5gclib/nas", "free5gclib/nas/security", "free5gclib/ngap + aper (ngap path)"}, "stub": {"none: the sender is the reference model, the channel is the byte slice"}}
	root := kernel.New(c.Seed).Sub("c10")
	var jobs []Job
	sigs := map[string]bool{}
	nLook := 6
	if c.Tier == "thorough" {
		nLook = 120
	}
	c10obs := c10Observer(c, per, func() int { return nLook })
	for i := 0; i < nHist; i += per {
		var hs []interface{}
		for k := 0; k < per; k++ {
			h := genDLHistory(root, maxOps)
			sigs[histSig(h)] = true
			hs = append(hs, h)
		}
		jobs = append(jobs, Job{S: lsScenario(root.Uint64(), "dl", hs), Rig: "ls", Judge: "ls", Tag: "c10-history"})
		if len(jobs) >= 48 {
			c.Batch(jobs, c10obs)
			jobs = nil
		}
	}
	// histories whose first ciphertext looks like a plain message (searched keys)
	var lh []interface{}
	rl := root.Sub("lookalike")
	for k := 0; k < nLook; k++ {
		h := lookalikeHistory(rl, 12)
		if ok, _ := h["lookalike"].(bool); ok {
			c.Probes["ciphertext-that-looks-like-a-plain-header"]++
		}
		sigs[histSig(h)] = true
		lh = append(lh, h)
	}
	jobs = append(jobs, Job{S: lsScenario(root.Uint64(), "dl", lh), Rig: "ls", Judge: "ls", Tag: "c10-lookalike"})
	c.Batch(jobs, c10obs)
	c.sigs = sigs
}

func c10Observer(c *Ctx, per int, nLook func() int) func(j Job, r *Run, fs []Finding) {
	return func(j Job, r *Run, fs []Finding) {
		if j.Tag == "c10-lookalike" {
			c.Evals += nLook() - 1
		} else {
			c.Evals += per - 1
		}
		lsProbes(c, r, "drops", "wraps256", "delivered", "excluded", "corrupted")
		for _, e := range r.Events {
			if e.Ev == "hist" {
				if f, _ := e.Info["corrupted"].(float64); f > 0 {
					c.Faults["mac-bit-flip"] += int(f)
				}
			}
		}
		for _, e := range r.Events {
			if e.Ev == "hist" {
				if f, _ := e.Info["drops"].(float64); f > 0 {
					c.Faults["drop"] += int(f)
				}
			}
		}
	}
}

// ---------- C15 ----------

// lastAKARand is the RAND of the last challenge of the previously generated history: a network may
// well use the same RAND for two subscribers, and state kept per RAND must not leak between them.
var lastAKARand string

func genAKAHistory(r *kernel.Rand, maxOps int) map[string]interface{} {
	sq := func() []byte {
		switch r.Intn(5) {
		case 0:
			return make([]byte, 6)
		case 1:
			// high, but far from exhausting the 48-bit space within one history (a UE at the very
			// last SQN can accept nothing any more: outside "once faults stop, a fresh challenge is accepted")
			return []byte{0xff, 0xff, 0xff, 0x00, 0x00, byte(r.Intn(256))}
		}
		b := r.Bytes(6)
		if b[0] == 0xff && b[1] == 0xff && b[2] == 0xff {
			b[2] = 0x7f
		}
		return b
	}
	he := sq()
	ue := append([]byte{}, he...)
	top := r.Sub("top").Chance(1, 12) // the UE sits at the very last SQN: everything is stale, nothing can be accepted any more
	switch r.Intn(6) {
	case 0: // equal
	case 1: // UE ahead by one
		ue = incBytes(ue, 1)
	case 2: // differ only in the first octet, network ahead
		ue[0], he[0] = 0x10, 0x20
	case 3: // differ only in the first octet, UE ahead
		ue[0], he[0] = 0x20, 0x10
	case 4:
		ue = sq()
	case 5: // network far ahead
		he = incBytes(he, uint64(r.Intn(1000)))
	}
	h := map[string]interface{}{"k": hex.EncodeToString(boundary128(r)), "op": hex.EncodeToString(boundary128(r)), "amf": hex.EncodeToString(r.Bytes(2)),
		"sqn_he": hex.EncodeToString(he), "sqn_ue": hex.EncodeToString(ue), "reuse": r.Sub("reuse").Bool()}
	if top {
		ue = []byte{0xff, 0xff, 0xff, 0xff, 0xff, 0xff}
		h["sqn_ue"] = hex.EncodeToString(ue)
		switch r.Sub("tophe").Intn(3) {
		case 0:
			he = []byte{0xff, 0xff, 0xff, 0xff, 0xff, 0xff}
		case 1:
			he = []byte{0xff, 0xff, 0xff, 0xff, 0xff, byte(0xf0 - r.Sub("tophe2").Intn(32))}
		}
		h["sqn_he"] = hex.EncodeToString(he)
	}
	var ops []interface{}
	n := r.Range(1, maxOps)
	for i := 0; i < n; i++ {
		op := map[string]interface{}{"op": "challenge", "rand": hex.EncodeToString(boundary128(r)), "delta": r.Pick(1, 1, 1, 2, 31, 256, 65536), "auts_off": r.Intn(14), "auts_bit": r.Intn(8)}
		switch x := r.Intn(12); {
		case x == 0:
			op["fault"], op["off"], op["bit"] = "flip-autn", r.Intn(16), r.Intn(8)
		case x == 1:
			op["fault"], op["off"], op["val"] = "set-autn", r.Intn(16), r.Pick(0, 0xff, r.Intn(256))
		case x == 2:
			op["fault"], op["off"], op["bit"] = "flip-rand", r.Intn(16), r.Intn(8)
		case x == 3:
			op = map[string]interface{}{"op": "replay", "idx": r.Intn(64), "auts_off": r.Intn(14), "auts_bit": r.Intn(8)}
		case x == 4:
			op["drop"] = true
		case x == 7 && r.Sub("badkey").Chance(1, 2):
			op = map[string]interface{}{"op": "badkey", "short": r.Intn(2), "rand": hex.EncodeToString(r.Bytes(16))}
		case x == 5: // corrupt the MAC part specifically, first octet included
			op["fault"], op["off"], op["bit"] = "flip-autn", 8+r.Intn(8), r.Intn(8)
		case x == 6: // corrupt the concealed SQN, first octet included
			op["fault"], op["off"], op["bit"] = "flip-autn", r.Intn(6), r.Intn(8)
		}
		if i == 0 && lastAKARand != "" && r.Sub("samerand").Chance(1, 3) && op["op"] == "challenge" {
			op["rand"] = lastAKARand // the previous subscriber's last RAND again
		}
		if op["op"] == "challenge" || op["op"] == "replay" {
			if r.Sub(fmt.Sprint("il", i)).Chance(1, 2) {
				op["interleave"], op["k2"], op["opc2"], op["rand2"] = true, hex.EncodeToString(r.Sub("k2").Bytes(16)), hex.EncodeToString(r.Sub("o2").Bytes(16)), hex.EncodeToString(r.Sub(fmt.Sprint("r2", i)).Bytes(16))
			}
		}
		ops = append(ops, op)
	}
	if top {
		// no liveness to expect: the SQN space of this UE is exhausted
		h["ops"] = ops
		if rr, ok := ops[len(ops)-1].(map[string]interface{})["rand"].(string); ok {
			lastAKARand = rr
		}
		return h
	}
	// faults stop: two clean exchanges must lead to an accepted challenge
	for i := 0; i < 2; i++ {
		ops = append(ops, map[string]interface{}{"op": "challenge", "rand": hex.EncodeToString(r.Bytes(16)), "delta": 1, "auts_off": r.Intn(14), "auts_bit": r.Intn(8)})
	}
	h["ops"] = ops
	h["expect_final_accepts"] = 2
	lastAKARand = ops[len(ops)-1].(map[string]interface{})["rand"].(string)
	return h
}

func incBytes(a []byte, d uint64) []byte {
	var v uint64
	for _, x := range a {
		v = v<<8 | uint64(x)
	}
	v = (v + d) & 0xffffffffffff
	out := make([]byte, 6)
	for i := 5; i >= 0; i-- {
		out[i] = byte(v)
		v >>= 8
	}
	return out
}

func checkC15(c *Ctx) {
	nHist, maxOps, per := 40000, 12, 200
	if c.Tier == "thorough" {
		nHist, maxOps, per = 400000, 24, 400
	}
	c.Rule = "evaluation = one AKA history between a home-environment node (library GenerateOPC + MilenageGenerate, SQN_HE) and a UE node (library Milenage_check, SQN_UE), both shadowed by the reference Milenage: challenges pass a channel that flips bits / sets octets in AUTN or RAND, replays earlier challenges, reorders and drops; on a synchronisation failure the AUTS goes back through Milenage_auts (genuine and corrupted). After every delivery: f1..f5*, OPc equal the reference; accept iff authentic and SQN greater; stale => -2 with the reference AUTS; forged never accepted. Liveness: after the last fault a challenge is accepted within two clean exchanges. distinct = distinct fault/operation sequence; non-trivial = history contains a fault, replay or resynchronisation"
	c.Assume = []string{"for a non-authentic AUTN both -1 and -2 are allowed (the statement does not order the MAC and freshness checks)",
		"SQN freshness is the plain 'greater than' of the statement (no IND/delta window)"}
	c.Components = map[string][]string{"real": {"free5gclib/milenage (F1, F2345, GenerateOPC, MilenageGenerate, Milenage_check, Milenage_auts)"}, "stub": {"none: in-process two-node rig, channel faults on the tokens"}}
	root := kernel.New(c.Seed).Sub("c15")
	var jobs []Job
	sigs := map[string]bool{}
	for i := 0; i < nHist; i += per {
		var hs []interface{}
		for k := 0; k < per; k++ {
			h := genAKAHistory(root, maxOps)
			sigs[histSig(h)+fmt.Sprint(h["sqn_he"] == h["sqn_ue"])] = true
			hs = append(hs, h)
			for _, o := range h["ops"].([]interface{}) {
				m := o.(map[string]interface{})
				if f, _ := m["fault"].(string); f != "" {
					c.Faults[f]++
				}
				if m["op"] == "replay" {
					c.Faults["replay"]++
				}
				if d, _ := m["drop"].(bool); d {
					c.Faults["drop"]++
				}
			}
		}
		jobs = append(jobs, Job{S: lsScenario(root.Uint64(), "aka", hs), Rig: "ls", Judge: "ls", Tag: "c15-history"})
		if len(jobs) >= 48 || i+per >= nHist {
			c.Batch(jobs, func(j Job, r *Run, fs []Finding) {
				c.Evals += per - 1
				lsProbes(c, r, "accepted", "resyncs", "rejected")
			})
			jobs = nil
		}
	}
	c.sigs = sigs
}

// ---------- C14 ----------

func checkC14(c *Ctx) {
	nConv, multi := 20, 0
	if c.Tier == "thorough" {
		nConv, multi = 120, 2000
	}
	c.Rule = "corpus = every uplink and downlink NGAP message of simulated conversations (all on-path types, swarm-varied) plus the encodings of the library's own builders plus, for every message type of the NGAP schema (all initiating messages and outcomes, each with every IE its container knows), a smallest, a largest and drawn well-formed values built from the library's Go types and aper tags and encoded by the library's encoder; for each corpus message the single-fault space is enumerated completely: every strict prefix, every single-bit flip, every octet set to 00/7F/80/FF/C1/C4, every octet pair set to FFFF/7FFF/8000/BFFF/C4C4, runs of C4 (8, 40), FF (8), 00 (8) at every offset (adversarial lengths, counts and fragmented length determinants), and structure-consistent faults: the value of every top-level IE replaced by nothing, by every single octet and by 60 two-/three-octet values while the IE's and the message's length determinants are kept right; thorough adds seeded multi-octet faults, splices and random strings; a quarter of the enumeration (thorough: all of it, twice) is repeated in a process whose library log files cannot be opened (a directory stands where aper.log / ngap.log / nas.log / free5gc.log / the log directory should be). evaluation = one ngap.Decoder call; oracle: returns (PDU | error), no panic, no fatal error, <= 16 MiB allocated and <= 5 s per call. distinct = distinct (corpus message, mutation); non-trivial = all (the genuine message itself is decoded too)"
	c.Assume = []string{"thresholds (16 MiB, 5 s per call for inputs <= 4 KiB) are far above honest behaviour so that they never trip on correct code",
		"the corpus need not be independent of the library: the builders' own encodings are used for breadth"}
	c.Components = map[string][]string{"real": {"free5gclib/ngap.Decoder", "free5gclib/aper", "free5gclib/ngap/ngapType"}, "stub": {"none: message-corruption faults are applied to the byte strings handed to the decoder"}}
	// 1. corpus from simulated conversations
	corpus := map[string]bool{}
	o := GenOpts{Profile: "c14-corpus", Mode: "test", MinReg: 1, MaxReg: 2, Sessions: true, MaxCount: 2, Latency: "zero", ExplicitUEs: 2, OptIEs: true}
	var cj []Job
	root := kernel.New(c.Seed).Sub("c14")
	for i := 0; i < nConv; i++ {
		s := Gen(root.Uint64(), o)
		cfg := &s.Config
		for _, p := range []*int{&cfg.NPdu, &cfg.NSvc, &cfg.NRel, &cfg.NDereg} {
			if *p == 0 {
				*p = 1
			}
		}
		cj = append(cj, Job{S: s, Rig: "ws", Judge: "ws-baseline", Tag: "c14-corpus-conversation"})
	}
	evalsBefore := c.Evals
	c.Batch(cj, func(j Job, r *Run, fs []Finding) {
		for _, e := range r.Events {
			if (e.Ev == "ul" || e.Ev == "dl") && e.Hex != "" && len(e.Hex) <= 8192 {
				corpus[e.Hex] = true
			}
		}
	})
	// 2. library builders
	var schemaLines []string
	bs := lsScenario(root.Uint64(), "corpus", nil)
	bs.Rig["schema_random"] = 2
	if c.Tier == "thorough" {
		bs.Rig["schema_random"] = 8
	}
	if v, err := strconv.Atoi(os.Getenv("VSIM_SCHEMA_RANDOM")); err == nil { // maintenance: regenerating /verif/corpus
		bs.Rig["schema_random"] = v
	}
	c.Batch([]Job{{S: bs, Rig: "ls", Judge: "ls", Tag: "c14-corpus-builders"}}, func(j Job, r *Run, fs []Finding) {
		for _, e := range r.Events {
			if e.Ev == "corpus" {
				corpus[e.Hex] = true
			}
			if e.Ev == "corpus" && strings.HasPrefix(e.Label, "schema:") {
				schemaLines = append(schemaLines, e.Label[7:]+" "+e.Hex)
			}
			if e.Ev == "schema" {
				for k, v := range e.Info {
					if f, ok := v.(float64); ok {
						c.Probes["schema-"+k] = int(f)
					}
				}
			}
		}
	})
	// 2b. the same schema-driven messages as encoded by the pinned tree's encoder, kept as data under
	// /verif/corpus: a change to a type's constraints alters what the tree's own encoder emits (or makes
	// it refuse the message), so the tree under test cannot be the only source of well-formed inputs
	if out := os.Getenv("VSIM_WRITE_CORPUS"); out != "" {
		sortStrings(schemaLines)
		os.WriteFile(out, []byte(strings.Join(schemaLines, "\n")+"\n"), 0644)
		harnessFail("C14: corpus of %d schema messages written to %s (maintenance mode, nothing was checked)", len(schemaLines), out)
	}
	files := []string{"ngap_schema_quick.txt"}
	if c.Tier == "thorough" {
		files = append(files, "ngap_schema_more.txt")
	}
	for _, f := range files {
		b, err := os.ReadFile(filepath.Join(verifDir(), "corpus", f))
		if err != nil {
			harnessFail("C14: stored corpus %s: %v", f, err)
		}
		for _, ln := range strings.Split(string(b), "\n") {
			if i := strings.IndexByte(ln, ' '); i > 0 {
				corpus[ln[i+1:]] = true
				c.Probes["stored-schema-messages"]++
			}
		}
	}
	c.Evals = evalsBefore
	c.sigs = map[string]bool{}
	var msgs []string
	for h := range corpus {
		msgs = append(msgs, h)
	}
	sortStrings(msgs)
	c.Probes["corpus-messages"] = len(msgs)
	// 3. enumerate the fault space, a few corpus messages per process
	var jobs []Job
	total := 0
	for i := 0; i < len(msgs); i += 2 {
		end := i + 2
		if end > len(msgs) {
			end = len(msgs)
		}
		var part []interface{}
		for _, m := range msgs[i:end] {
			part = append(part, m)
			total += 24*len(m)/2 + 1 + multi
		}
		s := lsScenario(root.Uint64(), "dec", nil)
		delete(s.Rig, "histories")
		s.Rig["corpus"] = part
		s.Rig["multi"] = multi
		s.Rig["cpu_s"] = float64(240) // ~10^5 decodes per process take seconds; an endless loop is still stopped
		s.Rig["no_shrink"] = true
		s.Quiet = false
		jobs = append(jobs, Job{S: s, Rig: "ls", Judge: "ls", Tag: "c14-fault-enumeration"})
		// the same enumeration while the library's log files cannot be opened (disk fault at start-up):
		// the decoder logs on its error paths, and what it logs to must not matter. One part in four in
		// the quick tier (the fault kind rotates), every part under two kinds in the thorough tier.
		kinds := []string{"aper-log", "free5gc-log", "lib-logs", "all-logs", "log-dir"}
		var use []string
		if c.Tier == "thorough" {
			use = []string{kinds[(i/2)%5], kinds[(i/2+2)%5]}
		} else if (i/2)%4 == 0 {
			use = []string{kinds[(i/8)%5]}
		}
		for _, k := range use {
			sf := cloneScn(s)
			sf.Rig["fs_fault"] = k
			jobs = append(jobs, Job{S: sf, Rig: "ls", Judge: "ls", Tag: "c14-fault-enumeration/fs:" + k})
			for _, m := range msgs[i:end] {
				total += 24*len(m)/2 + 1 + multi
			}
		}
	}
	decodes := 0
	c.Batch(jobs, func(j Job, r *Run, fs []Finding) {
		if k, _ := j.S.Rig["fs_fault"].(string); k != "" {
			c.Faults["log file(s) cannot be opened at start-up: "+k]++
		}
		for _, e := range r.Events {
			if e.Ev == "hist" {
				if f, ok := e.Info["decodes"].(float64); ok {
					decodes += int(f) + 1
				}
				if f, ok := e.Info["panics"].(float64); ok {
					c.Probes["panics-recovered"] += int(f)
				}
			}
		}
	})
	c.Evals = decodes
	c.Faults["prefix+bitflip+octet-set+pair-set+run (enumerated)"] = decodes
	c.Extra["distinct_note"] = "every (corpus message, mutation) pair is distinct by construction; distinct_nontrivial counts them"
	c.Extra["expected_decodes"] = total
	c.Exhaustive = true
	c.Extra["exhaustive_part"] = "every prefix, bit flip, octet set, octet-pair set and run (see rule) at every offset, and every (IE, replacement value) pair of the structure-consistent class, of every corpus message"
	c.distinctOverride = decodes
	// a replay for a decoder violation is the single input
	for i := range c.Violations {
		_ = i
	}
}

func sortStrings(s []string) {
	for i := 1; i < len(s); i++ {
		for j := i; j > 0 && s[j] < s[j-1]; j-- {
			s[j], s[j-1] = s[j-1], s[j]
		}
	}
}
