package main

import (
	"encoding/hex"
	"fmt"
	"os"
	"sort"
	"strconv"
	"strings"

	"verifsim/kernel"
	"verifsim/scn"
)

// GenOpts steer the scenario generator for one profile.
type GenOpts struct {
	Profile      string
	Mode         string // "test" | "traffic"
	MinReg       int
	MaxReg       int
	Sessions     bool // conversation goes beyond registration: PDU session id must stay in 1..15
	MaxCount     int  // bound of the four other repetition counts
	Latency      string
	MinMSIN      int
	MaxMSIN      int
	ExplicitUEs  int
	OptIEs       bool
	TopLevelOpts bool
}

const printableChars = "ABCDEFGHIJKLMNOPQRSTUVWXYZabcdefghijklmnopqrstuvwxyz0123456789 -.()"

func ifaces() []string {
	ents, err := os.ReadDir("/sys/class/net")
	if err != nil {
		return []string{"lo"}
	}
	var out []string
	for _, e := range ents {
		out = append(out, e.Name())
	}
	sort.Strings(out)
	return out
}

func ifindex(name string) int {
	b, err := os.ReadFile("/sys/class/net/" + name + "/ifindex")
	if err != nil {
		return -1
	}
	n, _ := strconv.Atoi(strings.TrimSpace(string(b)))
	return n
}

func hexCase(r *kernel.Rand, b []byte) string {
	s := hex.EncodeToString(b)
	switch r.Intn(3) {
	case 0:
		return strings.ToUpper(s)
	case 1:
		return s
	}
	out := []byte(s)
	for i := range out {
		if r.Bool() && out[i] >= 'a' {
			out[i] -= 32
		}
	}
	return string(out)
}

func boundary128(r *kernel.Rand) []byte {
	switch r.Intn(12) {
	case 0:
		return make([]byte, 16)
	case 1:
		b := make([]byte, 16)
		for i := range b {
			b[i] = 0xff
		}
		return b
	}
	return r.Bytes(16)
}

func genIP(r *kernel.Rand) string {
	return fmt.Sprintf("%d.%d.%d.%d", r.Range(1, 223), r.Intn(256), r.Intn(256), r.Range(1, 254))
}

// forceCarry lets a check ask for a given MSIN length and carry position (systematic sweeps).
var forceCarry = map[string]struct{ msin, pos int }{}

// genConfig draws a valid configuration.
func genConfig(r *kernel.Rand, o GenOpts, nUE int) scn.Config {
	var c scn.Config
	c.AmfNgapIP, c.StgNgapIP, c.GnbGtpIP = genIP(r), genIP(r), genIP(r)
	c.AmfNgapPort = r.Pick(38412, 48412, r.Range(1, 65535))
	c.StgNgapPort = r.Pick(9487, r.Range(1, 65535))
	switch r.Sub("wild").Intn(12) { // the unspecified local address is a legal value of stg_ngap_ip
	case 0:
		c.StgNgapIP = "0.0.0.0"
	case 1:
		c.StgNgapIP = "::"
	case 2:
		c.AmfNgapIP = "127.0.0.1"
	case 3: // core and emulator on one host: the same address string at both ends
		c.AmfNgapIP = "127.0.0.1"
		c.StgNgapIP = "127.0.0.1"
	case 4:
		c.StgNgapIP = c.AmfNgapIP
	case 5: // the same port number at both ends
		c.StgNgapPort = c.AmfNgapPort
	}
	c.MCC = r.Digits(3)
	c.MNC = r.Digits(2 + r.Intn(2))
	lo, hi := o.MinMSIN, o.MaxMSIN
	if lo == 0 {
		lo = 1
	}
	if hi == 0 {
		hi = 10
	}
	if hi > 12-len(c.MNC) { // an IMSI has at most 15 digits
		hi = 12 - len(c.MNC)
	}
	if o.Sessions && lo < 4 {
		lo = 4
	}
	// the MSIN must be able to count nUE subscribers upwards without overflowing
	need := len(strconv.Itoa(nUE + 2)) // one-digit MSINs for up to 7 subscribers
	if lo < need {
		lo = need
	}
	if hi < lo {
		hi = lo
	}
	n := r.Range(lo, hi)
	if r.Chance(1, 2) { // real IMSIs are 15 digits long: weigh that length
		n = hi
	}
	if v, ok := forceCarry[o.Profile]; ok && v.msin > 0 && v.msin <= hi && v.msin >= lo {
		n = v.msin
	}
	msin := []byte(r.Digits(n))
	if r.Chance(1, 3) { // leading zeros
		for i := 0; i < n/2; i++ {
			msin[i] = '0'
		}
	}
	if o.Sessions {
		// PDU session id = SUPI mod 10000 must stay in 1..15 for every UE
		base := r.Range(1, 16-nUE)
		copy(msin[n-4:], fmt.Sprintf("%04d", base))
	} else {
		// stay below exhaustion: top digit of the counting part below 9, or plenty of room
		v, _ := strconv.ParseUint(string(msin), 10, 64)
		max := uint64(1)
		for i := 0; i < n; i++ {
			max *= 10
		}
		if v+uint64(nUE) >= max {
			v = max - uint64(nUE) - uint64(r.Intn(3))
			if r.Chance(1, 2) && v > 5 {
				v -= uint64(r.Intn(5))
			}
			msin = []byte(fmt.Sprintf("%0*d", n, v))
		}
		// carry boundaries: make the population count across a power of ten at a drawn digit
		// position (...9998, ...9999, ...0000), so that carries propagate inside the MSIN, into the
		// digits above any fixed-width counter, and across multiples of 10^p of the numeric identifiers
		fc, forced := forceCarry[o.Profile]
		if nUE >= 2 && n >= 2 && (forced || r.Chance(1, 2)) {
			pp := r.Range(1, n-1)
			if forced && fc.pos >= 1 && fc.pos <= n-1 {
				pp = fc.pos
			}
			pow := uint64(1)
			for i := 0; i < pp; i++ {
				pow *= 10
			}
			before := uint64(r.Range(1, min(nUE-1, 9)))
			if before < pow {
				low := pow - before
				d := []byte(fmt.Sprintf("%0*d", pp, low))
				copy(msin[n-pp:], d)
				if msin[n-pp-1] == '9' { // keep room above the carry: stay clear of MSIN exhaustion
					msin[n-pp-1] = byte('0' + r.Intn(9))
				}
			}
		}
	}
	if !o.Sessions {
		// the carry placement above may have pushed the MSIN back into exhaustion: the population must
		// still fit (the statement of C16 only speaks of populations the MSIN digits can accommodate)
		for guard := 0; guard < 20; guard++ {
			v, _ := strconv.ParseUint(string(msin), 10, 64)
			max := uint64(1)
			for i := 0; i < n; i++ {
				max *= 10
			}
			if v+uint64(nUE) <= max {
				break
			}
			for i := 0; i < n; i++ { // lower the most significant non-zero digit
				if msin[i] != '0' {
					msin[i]--
					break
				}
			}
		}
	}
	c.IMSI = c.MCC + c.MNC + string(msin)
	c.K = hexCase(r, boundary128(r))
	opc, op := boundary128(r), boundary128(r)
	if r.Chance(2, 3) {
		c.OPC, c.OP = hexCase(r, opc), hexCase(r, op)
		if r.Sub("noop").Chance(1, 4) {
			c.OP = "" // OPc provisioned, no OP at all
		}
	} else {
		c.OPC, c.OP = "", hexCase(r, op)
	}
	c.GnbBitLength = r.Range(22, 32)
	gb := make([]byte, (c.GnbBitLength+7)/8)
	for i := range gb {
		gb[i] = byte(r.Intn(128))
	}
	if c.GnbBitLength%8 != 0 {
		gb[len(gb)-1] &= 0xff << uint(8-c.GnbBitLength%8)
	}
	c.GnbIDHex = hex.EncodeToString(gb)
	nameLen := r.Pick(1, 2, 7, 20, r.Range(1, 150), 150)
	if rl := r.Sub("long-name"); rl.Chance(1, 12) { // RANNodeName ::= PrintableString (SIZE(1..150, ...)): beyond the root
		nameLen = rl.Pick(151, 152, 200, 255, 256, 300)
	}
	name := make([]byte, nameLen)
	for i := range name {
		name[i] = printableChars[r.Intn(len(printableChars))]
	}
	// a PrintableString may begin and end with a blank, and a quoted YAML scalar keeps it: leave
	// such names in one case out of three, otherwise use the usual trimmed form
	if !r.Sub("blank").Chance(1, 3) {
		if name[0] == ' ' {
			name[0] = 'g'
		}
		if name[nameLen-1] == ' ' {
			name[nameLen-1] = 'B'
		}
	} else if r.Sub("blank2").Bool() {
		name[nameLen-1] = ' '
	}
	c.GnbName = string(name)
	c.SST = r.Pick(0, 1, 1, 2, 3, 255, r.Intn(256)) // 0 is a legal SST: an explicit zero must not be taken for "unset"
	c.SD = hexCase(r, r.Bytes(3))
	switch r.Sub("sd").Intn(8) { // the two ends of the SD range (ffffff is "no SD associated" in TS 23.003, still a value to carry)
	case 0:
		c.SD = "000000"
	case 1:
		c.SD = hexCase(r.Sub("sdcase"), []byte{0xff, 0xff, 0xff})
	}
	ifs := ifaces()
	c.DLIface = ifs[r.Intn(len(ifs))]
	c.ULIface = ifs[r.Intn(len(ifs))]
	return c
}

func genAMF(r *kernel.Rand) scn.AMFParams {
	a := scn.AMFParams{Name: "amf" + r.Digits(r.Range(1, 8)), Region: r.Intn(256), SetID: r.Intn(1024), Pointer: r.Intn(64), Capacity: r.Intn(256), NSlices: r.Range(1, 3)}
	if rg := r.Sub("guami"); rg.Chance(1, 5) { // a shared AMF whose own GUAMI belongs to another PLMN
		a.GUAMIPLMN = rg.Digits(3) + rg.Digits(2+rg.Intn(2))
	}
	rp := r.Sub("plmns")
	if rp.Chance(1, 3) { // the AMF serves further PLMNs, listed before and/or after the gNB's
		for i := 0; i < rp.Intn(3); i++ {
			a.PLMNsBefore = append(a.PLMNsBefore, rp.Digits(3)+rp.Digits(2+rp.Intn(2)))
		}
		for i := 0; i < rp.Intn(3); i++ {
			a.PLMNsAfter = append(a.PLMNsAfter, rp.Digits(3)+rp.Digits(2+rp.Intn(2)))
		}
	}
	if r.Chance(1, 4) {
		a.Backup = "backup-" + r.Digits(3)
	}
	return a
}

func boundaryInt(r *kernel.Rand, max int64) int64 {
	switch r.Intn(8) {
	case 0:
		return 0
	case 1:
		return max
	case 2:
		return max - int64(r.Intn(3))
	case 3:
		return int64(r.Intn(256))
	case 4:
		// around a power of two boundary of the length field
		p := int64(1) << uint(8*r.Range(1, 4))
		v := p - 1 + int64(r.Intn(3))
		if v > max {
			v = max
		}
		return v
	}
	return r.Int63n(max + 1)
}

// structBytes are octets that mean something to the decoders on the path: NGAP IE ids of the setup
// request and its transfer (130, 139, 127, 134, 138, 129, 136, 74, 38), NAS IEIs of the establishment
// accept (0x29 PDU address, 0x59, 0x7B, 0x79, 0x22, 0x25, 0x56), protocol discriminators, and the
// small integers that look like length or count fields. Network-chosen values built from them are
// the ones that confuse an extractor which searches for a pattern instead of walking lengths.
var structBytes = []byte{0x00, 0x00, 0x8B, 0x8B, 0x82, 0x7F, 0x86, 0x8A, 0x81, 0x88, 0x4A, 0x26, 0x29, 0x29, 0x59, 0x7B, 0x79, 0x22, 0x25, 0x56, 0x7E, 0x2E, 0x01, 0x04, 0x05, 0x40, 0x80, 0xFF}

// structInt draws an integer in 0..max whose big-endian octets are structure-like.
func structInt(r *kernel.Rand, max int64) int64 {
	n := r.Range(1, 5)
	var v int64
	for i := 0; i < n; i++ {
		v = v<<8 | int64(structBytes[r.Intn(len(structBytes))])
	}
	if r.Chance(1, 3) { // IE id 139 (UL NG-U UP TNL information) in every position it can take
		v = []int64{139, 139 << 8, 139 << 16, 0x010000 | 139, 0x01000000 | 139<<8, 139<<24 | 139}[r.Intn(6)]
	}
	if v > max {
		v %= max + 1
	}
	return v
}

func structIP(r *kernel.Rand) string {
	b := make([]byte, 4)
	for i := range b {
		b[i] = structBytes[r.Intn(len(structBytes))]
	}
	if b[0] == 0 || b[0] >= 224 || b[0] == 127 {
		b[0] = 0x29
	}
	return fmt.Sprintf("%d.%d.%d.%d", b[0], b[1], b[2], b[3])
}

// genUE draws the network's choices for one UE; ids are kept unique by the caller.
func genUE(r *kernel.Rand, o GenOpts, ord int) scn.UEParams {
	var p scn.UEParams
	p.RAND = hex.EncodeToString(boundary128(r))
	sq := r.Bytes(6)
	switch r.Intn(6) {
	case 0:
		sq = make([]byte, 6)
	case 1:
		sq = []byte{0xff, 0xff, 0xff, 0xff, 0xff, 0xff}
	}
	p.SQN = hex.EncodeToString(sq)
	amf := r.Bytes(2)
	amf[0] |= 0x80 // separation bit, TS 33.501 6.1.3.2
	p.AMFField = hex.EncodeToString(amf)
	p.AmfUeID = boundaryInt(r, 1099511627775)
	p.NgKSI = r.Intn(7)
	p.TMSI = hex.EncodeToString(r.Bytes(4))
	p.IDPairInRel = r.Chance(3, 4)
	if o.OptIEs {
		// option sets: the empty set, the full set and singletons are as likely as a random subset, so
		// that "this IE is the last / the only one" and "message k is longer than message k-1" are common
		ro := r.Sub("optsets")
		mask := func(bits int) int {
			switch ro.Intn(5) {
			case 0:
				return 0
			case 1:
				return 1<<uint(bits) - 1
			case 2:
				return 1 << uint(ro.Intn(bits))
			}
			return ro.Intn(1 << uint(bits))
		}
		p.AuthOptIEs = mask(4)
		p.SMCNgapOpt = mask(4)
		p.CUCNgapOpt = mask(4)
		p.DeregNgapOpt = mask(4)
		p.SMCOpt = r.Intn(8) | r.Intn(4)<<4
		p.ICSOpt = mask(5)
		if rr := r.Sub("radio-cap"); p.ICSOpt&4 != 0 && rr.Chance(2, 3) { // the request stays below the emulator's 2048-octet buffer
			p.RadioCapLen = rr.Pick(100, 127, 128, 200, 255, 256, 300, 512, 1000, 1500, rr.Range(5, 1500))
		}
		p.RegAccOpt = mask(5)
		p.CUCOpt = r.Intn(4)
		p.AccOpt = mask(15)
		p.TransOpt = mask(4)
		_ = r.Intn(16) + r.Intn(32) + r.Intn(32) + r.Intn(1<<15) + r.Intn(16) // keep the other draws of this stream where they were
		p.SetupOpt = r.Intn(2) << 1                                           // UE-AMBR after the list
		if o.TopLevelOpts && r.Chance(1, 4) {
			p.SetupOpt |= 1 // RANPagingPriority before the list
		}
		if o.TopLevelOpts && r.Sub("top-nas-pdu").Chance(1, 5) {
			p.SetupOpt |= 4 // a top-level NAS-PDU before the list
		}
	}
	p.UEIP = fmt.Sprintf("%d.%d.%d.%d", r.Range(1, 223), r.Intn(256), r.Intn(256), r.Intn(256))
	te := r.Bytes(4)
	switch r.Intn(8) {
	case 0:
		te = []byte{0, 0, 0, 0}
	case 1:
		te = []byte{0xff, 0xff, 0xff, 0xff}
	}
	p.TEID = hex.EncodeToString(te)
	p.UPFIP = fmt.Sprintf("%d.%d.%d.%d", r.Range(1, 223), r.Intn(256), r.Intn(256), r.Intn(256))
	// structure-like values (see structBytes): a quarter of the UEs get some
	rs := r.Sub("struct")
	if rs.Chance(1, 4) {
		if rs.Bool() {
			p.UEIP = structIP(rs)
		}
		if rs.Bool() {
			p.UPFIP = structIP(rs)
		}
		if rs.Bool() {
			te = []byte{structBytes[rs.Intn(len(structBytes))], structBytes[rs.Intn(len(structBytes))], structBytes[rs.Intn(len(structBytes))], structBytes[rs.Intn(len(structBytes))]}
			p.TEID = hex.EncodeToString(te)
		}
		p.Fill = rs.Range(1, 3)
		p.CauseVal = int(rs.Pick(0x29, 0x29, 0x59, 0x7B, 0x1A, 0x24))
	}
	p.QoSRuleLen = r.Pick(0, 1, 6, 9, 32, 127, 128, 255, 256, r.Range(0, 1000), r.Range(1000, 4000), r.Pick(1900, 1950, 2000, 2047, 2048, 2049, 4000))
	if v := os.Getenv("VSIM_FORCE_QOS"); v != "" { // debugging aid: one fixed QoS rule length
		fmt.Sscan(v, &p.QoSRuleLen)
	}
	if o.OptIEs {
		p.AccLens = []int{r.Range(0, 120), r.Range(0, 120), r.Range(0, 120), r.Range(0, 120), r.Range(0, 60), r.Range(0, 40)}
		if rb := r.Sub("big-accept"); rb.Chance(1, 8) {
			// kilobytes of QoS flow descriptions or extended protocol configuration options: the setup
			// request crosses the widths of the length determinants (8K, 16K fragments) and stays below
			// the emulator's 65535-octet buffer
			i := rb.Pick(2, 3)
			p.AccLens[i] = rb.Pick(5000, 8100, rb.Range(8150, 8250), 12000, 16200, rb.Range(16300, 16450), 20000, rb.Range(32700, 32900), 50000)
			p.AccOpt |= 1 << uint(4+i)
		}
	}
	p.AMBRDL = boundaryInt(r, 4000000000000)
	p.AMBRUL = boundaryInt(r, 4000000000000)
	if rs.Chance(1, 3) {
		p.AMBRDL = structInt(rs, 4000000000000)
	}
	if rs.Chance(1, 3) {
		p.AMBRUL = structInt(rs, 4000000000000)
	}
	if ra := r.Sub("sess-ambr"); ra.Chance(3, 4) {
		// units of TS 24.501 9.11.4.14 (1..25), the reserved ends, and octets that read as a length or an IEI
		unit := func() int {
			return ra.Pick(ra.Range(1, 25), ra.Range(1, 25), 0, 255, 0x29, 0x59, 0x79, 0x7b, ra.Intn(256))
		}
		val := func() int { return ra.Pick(ra.Intn(65536), 0, 1, 0xffff, 0x2905, 0x0600, 0x0006) }
		d, u := val(), val()
		p.SessAMBR = fmt.Sprintf("%02x%04x%02x%04x", unit(), d, unit(), u)
	}
	p.FiveQI = r.Pick(1, 5, 9, 255, r.Intn(256))
	if o.OptIEs {
		p.NFlows = r.Sub("flows").Pick(1, 1, 1, 2, 6, 21, 22, 23, 30, 40, 64) // the list crosses 128 octets at about 25 flows
	}
	p.SvcPDU = r.Bool()
	return p
}

func genLatency(r *kernel.Rand, class string) scn.Latency {
	l := scn.Latency{Class: class}
	ms := int64(1000000)
	switch class {
	case "zero":
	case "nominal":
		l.UL = r.Int63n(10 * ms)
		n := r.Range(1, 7)
		for i := 0; i < n; i++ {
			l.DL = append(l.DL, r.Int63n(20*ms))
		}
		for i := 0; i < n; i++ {
			l.Proc = append(l.Proc, r.Int63n(20*ms))
		}
	case "slow":
		l.UL = r.Int63n(300 * ms)
		n := r.Range(1, 7)
		for i := 0; i < n; i++ {
			l.DL = append(l.DL, r.Int63n(1000*ms))
			l.Proc = append(l.Proc, r.Int63n(4000*ms))
		}
	}
	return l
}

func max(a, b int) int {
	if a > b {
		return a
	}
	return b
}

func min(a, b int) int {
	if a < b {
		return a
	}
	return b
}

// Gen builds the scenario for (seed, options): a pure function.
func Gen(seed uint64, o GenOpts) *scn.Scenario {
	root := kernel.New(seed).Sub(o.Profile)
	s := &scn.Scenario{Seed: seed, Profile: o.Profile}
	rc := root.Sub("counts")
	nreg := rc.Range(o.MinReg, o.MaxReg)
	s.Config = genConfig(root.Sub("cfg"), o, nreg)
	if o.Mode == "traffic" {
		s.Args = []string{}
		s.Config.UENumber = nreg
		s.Config.NReg, s.Config.NPdu, s.Config.NSvc, s.Config.NRel, s.Config.NDereg = rc.Intn(5), rc.Intn(5), rc.Intn(5), rc.Intn(5), rc.Intn(5)
	} else {
		s.Args = []string{"-t"}
		s.Config.UENumber = rc.Intn(5)
		s.Config.NReg = nreg
		if o.Sessions {
			m := o.MaxCount
			s.Config.NPdu, s.Config.NSvc, s.Config.NRel, s.Config.NDereg = rc.Intn(m+1), rc.Intn(m+1), rc.Intn(m+1), rc.Intn(m+1)
		}
	}
	s.Population = nreg
	if s.Population < 1 {
		s.Population = 1
	}
	s.AMF = genAMF(root.Sub("amf"))
	s.UESeed = root.Sub("ueseed").Uint64()
	nexp := o.ExplicitUEs
	if nexp > nreg {
		nexp = nreg
	}
	usedID := map[int64]bool{}
	usedTM := map[string]bool{}
	usedIP := map[string]bool{}
	for i := 0; i < nexp; i++ {
		ru := root.Sub("ue" + strconv.Itoa(i))
		p := genUE(ru, o, i)
		for usedID[p.AmfUeID] {
			p.AmfUeID = (p.AmfUeID + 1) % 1099511627776
		}
		usedID[p.AmfUeID] = true
		for usedTM[p.TMSI] {
			p.TMSI = hex.EncodeToString(ru.Bytes(4))
		}
		usedTM[p.TMSI] = true
		for usedIP[p.UEIP] {
			p.UEIP = fmt.Sprintf("%d.%d.%d.%d", ru.Range(1, 223), ru.Intn(256), ru.Intn(256), ru.Intn(256))
		}
		usedIP[p.UEIP] = true
		s.UEs = append(s.UEs, p)
	}
	lat := o.Latency
	if lat == "swarm" {
		lat = []string{"zero", "nominal", "nominal", "slow"}[root.Sub("latclass").Intn(4)]
	}
	if lat == "swarm-fast" {
		lat = []string{"zero", "nominal", "nominal"}[root.Sub("latclass").Intn(3)]
	}
	s.Lat = genLatency(root.Sub("lat"), lat)
	return s
}
