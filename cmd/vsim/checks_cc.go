package main

import (
	"encoding/json"
	"fmt"
	"os"
	"os/exec"
	"path/filepath"
	"strings"

	"verifsim/kernel"
	"verifsim/scn"
)

func init() {
	checks["C20"] = checkDef{"exploration", checkC20, 120}
}

var ccPackages = []string{
	"src/free5gclib/aper", "src/free5gclib/ngap", "src/free5gclib/ngap/ngapConvert", "src/free5gclib/nas", "src/free5gclib/nas/nasMessage",
	"src/free5gclib/nas/nasConvert", "src/free5gclib/nas/nasTestpacket", "src/free5gclib/nas/security", "src/free5gclib/nas/security/snow3g",
	"src/free5gclib/UeauCommon", "src/free5gclib/milenage", "src/tglib", "src/tglib/ngapTestpacket", "src/stgutg",
}

// instrumentedCopy makes the yield/access-instrumented copy of the scratch tree.
func (e *Env) instrumentedCopy() (string, map[string]interface{}, error) {
	dst := filepath.Join(e.Scratch, "src-cc")
	if err := runCmd("/", nil, "rsync", "-a", "--delete", e.Src+"/", dst+"/"); err != nil {
		return "", nil, err
	}
	tool := filepath.Join(verifDir(), "bin", "instrument")
	// each module of the repository has its own import-path root
	report := map[string]interface{}{}
	for _, grp := range [][2]string{{"src/free5gclib", "free5gclib"}, {"src/tglib", "tglib"}, {"src/stgutg", "stgutg"}} {
		var rel []string
		for _, p := range ccPackages {
			if p == grp[0] {
				rel = append(rel, ".")
			} else if strings.HasPrefix(p, grp[0]+"/") {
				rel = append(rel, strings.TrimPrefix(p, grp[0]+"/"))
			}
		}
		args := append([]string{filepath.Join(dst, grp[0]), grp[1]}, rel...)
		cmd := exec.Command(tool, args...)
		out, err := cmd.Output()
		if err != nil {
			msg := ""
			if ee, ok := err.(*exec.ExitError); ok {
				msg = string(ee.Stderr)
			}
			return "", nil, fmt.Errorf("instrumenting %s: %v %s", grp[0], err, msg)
		}
		var r map[string]interface{}
		json.Unmarshal(out, &r)
		report[grp[1]] = r
	}
	return dst, report, nil
}

func checkC20(c *Ctx) {
	n := 3000
	if c.Tier == "thorough" {
		n = 60000
	}
	c.Rule = "evaluation = one controlled schedule: G tasks (real goroutines, exactly one running at a time), each with its own UE context and messages, run 1..6 library operations (NGAP encode/decode, plain NAS encode/decode, NASEncode/NASDecode with all algorithm pairs, DeriveRESstarAndSetKey, NASEncrypt, NASMacCalculate, the Milenage library functions) in an instrumented copy of the libraries; the seeded scheduler (uniform random with p in {1/4,1/20,1/100}, PCT with d<=3 change points, switch-at-shared-access) decides at every yield point who continues. distinct = distinct (task set, decision list) hash; non-trivial = at least one context switch happened inside a library operation"
	c.Assume = []string{"yield points are function entries and loop bodies of the instrumented packages plus every statement touching a mutable package-level variable: interleavings finer than that (inside one statement) are not explored",
		"third-party packages (wmnsk/milenage, aead/cmac, logrus, std) are not instrumented: shared state inside them is invisible to the race clause; results are still compared",
		"locks are identified by the text of the receiver expression: two different mutex objects reached through the same expression count as one (over-approximates 'common lock')",
		"NG Setup is not part of the workload: it is a per-gNB operation, and the statement is about different UEs"}
	c.Components = map[string][]string{"real": {"free5gclib aper, ngap, nas, nasMessage, nasConvert, nasTestpacket, security, snow3g, UeauCommon, milenage; tglib, tglib/ngapTestpacket, stgutg (instrumented copies)", "wmnsk/milenage, aead/cmac (uninstrumented)"},
		"stub": {"the Go scheduler's choice of the running goroutine is replaced by verifsim/simrt"}}
	src, report, err := c.Env.instrumentedCopy()
	if err != nil {
		harnessFail("%v", err)
	}
	c.Extra["instrumentation"] = report
	bin, err := c.Env.BuildRig("cc", false, src)
	if err != nil {
		harnessFail("%v", err)
	}
	c.Env.rigs["cc|"] = bin // binFor("cc") resolves to the instrumented build
	root := kernel.New(c.Seed).Sub("c20")
	var jobs []Job
	for i := 0; i < n; i++ {
		s := &scn.Scenario{Seed: root.Uint64(), Profile: "cc", Args: []string{}, Config: scn.Config{K: "00000000000000000000000000000000", OPC: "00000000000000000000000000000000", MCC: "001", MNC: "01", IMSI: "001010000000001"}}
		g := root.Range(2, 8)
		if c.Tier == "thorough" && root.Chance(1, 10) {
			g = root.Range(9, 64)
		}
		rig := map[string]interface{}{"tasks": g, "ops": root.Range(1, 6)}
		switch root.Intn(5) {
		case 0:
			rig["mode"], rig["p_den"] = "random", 4
		case 1:
			rig["mode"], rig["p_den"] = "random", 20
		case 2:
			rig["mode"], rig["p_den"] = "random", 100
		case 3:
			rig["mode"], rig["d"], rig["est_steps"] = "pct", root.Range(1, 3), 3000*g
		case 4:
			rig["mode"] = "access"
		}
		if root.Sub("cold").Chance(1, 2) {
			rig["cold"] = true // the tasks are the first users of the libraries in the process
		}
		s.Rig = rig
		jobs = append(jobs, Job{S: s, Rig: "cc", Judge: "ls", Tag: "c20/" + fmt.Sprint(rig["mode"])})
	}
	sigs := map[string]bool{}
	c.Batch(jobs, func(j Job, r *Run, fs []Finding) {
		for _, e := range r.Events {
			if e.Ev != "cc" {
				continue
			}
			sw, _ := e.Info["switches_in_ops"].(float64)
			st, _ := e.Info["steps"].(float64)
			all, _ := e.Info["switches"].(float64)
			c.Probes["yield-points-executed"] += int(st)
			c.Probes["context-switches"] += int(all)
			c.Probes["context-switches-inside-a-library-call"] += int(sw)
			if sw > 0 {
				sigs[keyHash(fmt.Sprint(j.S.Seed, e.Info["schedule"]))] = true
			}
			c.Dims["mode:"+fmt.Sprint(j.S.Rig["mode"])]++
			if cold, _ := j.S.Rig["cold"].(bool); cold {
				c.Probes["cold-start schedules (tasks are the first users of the libraries)"]++
			}
			c.Dims[fmt.Sprintf("tasks:%v", j.S.Rig["tasks"])]++
		}
	})
	c.sigs = sigs
	_ = os.Stdout
}
