package main

import (
	"encoding/hex"
	"fmt"
	"net"
	"strings"

	"verifsim/kernel"
	"verifsim/ref/core"
	"verifsim/ref/crypto"
	"verifsim/ref/nas"
	"verifsim/scn"
)

func init() {
	checks["C05"] = checkDef{"exploration", checkC05, 105}
	checks["C12"] = checkDef{"exploration", checkC12, 112}
	judges["ps-c05"] = judgePSKeys
	judges["ps-probe"] = judgePSProbe
	judges["ps-probe-c05"] = func(r *Run) []Finding {
		var out []Finding
		for _, f := range judgePSProbe(r) {
			if !strings.HasPrefix(f.Key, "plmn.") {
				out = append(out, f)
			}
		}
		return out
	}
	judges["ps-probe-c11"] = func(r *Run) []Finding { return onlyRules(judgePSProbe(r), "plmn.convert", "panic", "exit.status") }
	judges["ps-c12"] = judgePSEstablish
	judges["ps-term"] = judgePSTermination
	judges["ps-direct"] = judgePSDirect
	judges["ws-c05"] = func(r *Run) []Finding {
		return onlyRules(judges["ws-test"](r), "aka.res", "nas.mac", "nas.decode", "exit.status", "panic", "hang", "watchdog")
	}
	judges["ws-c12"] = func(r *Run) []Finding {
		return onlyRules(judges["ws-traffic"](r), "dp.session-values", "dp.clients", "dp.report", "panic", "hang", "watchdog", "exit.status")
	}
}

func evInfo(r *Run, ev string) []map[string]interface{} {
	var out []map[string]interface{}
	for _, e := range r.Events {
		if e.Ev == ev && e.Info != nil {
			out = append(out, e.Info)
		}
	}
	return out
}

func coreUE(r *Run) map[string]interface{} {
	var last map[string]interface{}
	for _, e := range r.Events {
		if e.Ev == "summary" {
			if c, ok := e.Info["core"].(map[string]interface{}); ok {
				if ues, ok := c["ues"].([]interface{}); ok && len(ues) > 0 {
					last, _ = ues[0].(map[string]interface{})
				}
			}
		}
	}
	return last
}

func rigEnded(r *Run) []Finding {
	var fs []Finding
	if r.TimedOut {
		return addFinding(fs, "watchdog@"+lastSite(r), "the process was still running at the wall-clock watchdog", -1)
	}
	for _, e := range r.Events {
		if e.Ev == "spin" {
			fs = addFinding(fs, "hang.spin@"+lastSite(r), fmt.Sprintf("the procedure never ends: %v", e.Info["reason"]), -1)
		}
		if e.Ev == "hang" {
			fs = addFinding(fs, "hang@"+lastSite(r), "blocked in Read with nothing in flight", -1)
		}
	}
	if kind, where := crashSite(r.StderrText()); kind != "" {
		fs = addFinding(fs, kind+"@"+where, firstLines(r.StderrText(), 6), -1)
	} else if r.Exit != 0 && len(fs) == 0 {
		fs = addFinding(fs, "exit.status@"+lastSite(r), fmt.Sprintf("exit status %d; stdout tail: %s", r.Exit, tail(r.StdoutText(), 200)), -1)
	}
	return fs
}

// judgePSKeys: the UE context after RegisterUE must equal the reference AMF's context.
func judgePSKeys(r *Run) []Finding {
	fs := onlyRules(ruleFindings(r), "aka.res", "nas.mac", "nas.decode", "nas.count", "nas.sht", "nas.container", "nas.unexpected")
	fs = append(fs, rigEnded(r)...)
	ctx := evInfo(r, "ctx")
	cu := coreUE(r)
	if len(ctx) == 0 || cu == nil {
		if len(fs) == 0 {
			fs = addFinding(fs, "unobserved.ctx@"+lastSite(r), "the UE context was never reported", -1)
		}
		return fs
	}
	c := ctx[0]
	cmp := func(name, ck string) {
		if fmt.Sprint(c[name]) != fmt.Sprint(cu[ck]) {
			fs = addFinding(fs, "keys."+name+"@RegisterUE", fmt.Sprintf("UE installed %s=%v, the network derived %v (nea=%v nia=%v)", name, c[name], cu[ck], r.Scn.Rig["nea"], r.Scn.Rig["nia"]), 0)
		}
	}
	cmp("kamf", "kamf")
	cmp("knasint", "knasint")
	cmp("knasenc", "knasenc")
	cmp("amf_ue_ngap_id", "amf_id")
	if fmt.Sprint(c["ul_count"]) != fmt.Sprint(cu["ul_next"]) {
		fs = addFinding(fs, "keys.ul_count@RegisterUE", fmt.Sprintf("UE's uplink NAS COUNT is %v after registration, the network expects %v next", c["ul_count"], cu["ul_next"]), 0)
	}
	return fs
}

func expectedKeys(p map[string]interface{}) (resStar, kamf, kint, kenc string, ok bool) {
	str := func(k string) string { v, _ := p[k].(string); return v }
	k, e1 := hex.DecodeString(str("k"))
	var opc []byte
	var e2 error
	if str("opc") != "" {
		opc, e2 = hex.DecodeString(str("opc"))
	} else {
		var op []byte
		op, e2 = hex.DecodeString(str("op"))
		if e2 == nil {
			opc = crypto.OPc(k, op)
		}
	}
	rnd, e3 := hex.DecodeString(str("rand"))
	sqn, e4 := hex.DecodeString(str("sqn"))
	amf, e5 := hex.DecodeString(str("amf"))
	if e1 != nil || e2 != nil || e3 != nil || e4 != nil || e5 != nil {
		return
	}
	a := crypto.Derive5GAKA(k, opc, rnd, sqn, amf, crypto.SNName(str("mcc"), str("mnc")), str("imsi"), []byte{0, 0})
	nea, nia := byte(p["nea"].(float64)), byte(p["nia"].(float64))
	return hex.EncodeToString(a.XRESStar), hex.EncodeToString(a.KAMF), hex.EncodeToString(crypto.AlgKey(a.KAMF, 2, nia)), hex.EncodeToString(crypto.AlgKey(a.KAMF, 1, nea)), true
}

// judgePSProbe compares every derivation of the sequence with the reference formulas.
func judgePSProbe(r *Run) []Finding {
	fs := rigEnded(r)
	probes, _ := r.Scn.Rig["probes"].([]interface{})
	got := map[int]map[string]interface{}{}
	for _, e := range r.Events {
		if e.Ev == "ctx" {
			got[e.I] = e.Info
		}
	}
	for i, pv := range probes {
		p := pv.(map[string]interface{})
		c := got[i]
		if c == nil {
			if len(fs) == 0 {
				fs = addFinding(fs, "unobserved.ctx@probe", fmt.Sprintf("derivation #%d of the sequence was never reported", i), -1)
			}
			continue
		}
		res, kamf, kint, kenc, ok := expectedKeys(p)
		if !ok {
			panic("probe scenario has malformed hex")
		}
		for _, x := range [][3]string{{"res_star", res, "RES*"}, {"kamf", kamf, "K_AMF"}, {"knasint", kint, "K_NASint"}, {"knasenc", kenc, "K_NASenc"}} {
			if fmt.Sprint(c[x[0]]) != x[1] {
				fs = addFinding(fs, "keys."+x[0]+"@DeriveRESstarAndSetKey", fmt.Sprintf("derivation #%d of %d in this process: %s is %v, TS 33.501 Annex A gives %s (nea=%v nia=%v op-only=%v)", i, len(probes), x[2], c[x[0]], x[1], p["nea"], p["nia"], p["opc"] == ""), 0)
			}
		}
		if k2, _ := p["kamf2"].(string); len(k2) == 64 {
			kb, _ := hex.DecodeString(k2)
			nea, nia := byte(p["nea"].(float64)), byte(p["nia"].(float64))
			wi, we := hex.EncodeToString(crypto.AlgKey(kb, 2, nia)), hex.EncodeToString(crypto.AlgKey(kb, 1, nea))
			if fmt.Sprint(c["knasint2"]) != wi || fmt.Sprint(c["knasenc2"]) != we {
				fs = addFinding(fs, "keys.rekey@DerivateAlgKey", fmt.Sprintf("derivation #%d: after K_AMF was replaced in place, K_NASint/K_NASenc are %v/%v, TS 33.501 A.8 gives %s/%s", i, c["knasint2"], c["knasenc2"], wi, we), 0)
			}
		}
		// the library's own PLMN conversion (the statement of C11 names it) for the serving PLMN and its
		// sibling of the other MNC length
		if pc, ok := c["plmn_conv"].(string); ok {
			mcc, mnc := fmt.Sprint(p["mcc"]), fmt.Sprint(p["mnc"])
			sib := "0" + mnc
			if len(mnc) == 3 {
				sib = mnc[1:]
			}
			if want := hex.EncodeToString(nas.EncodePLMN(mcc, mnc)); pc != want {
				fs = addFinding(fs, "plmn.convert@PlmnIDToNas", fmt.Sprintf("derivation #%d: PlmnIDToNas(%s/%s) = %s, TS 24.501 9.11.3.4 gives %s", i, mcc, mnc, pc, want), 0)
			}
			if want := hex.EncodeToString(nas.EncodePLMN(mcc, sib)); fmt.Sprint(c["plmn_conv_sibling"]) != want {
				fs = addFinding(fs, "plmn.convert@PlmnIDToNas", fmt.Sprintf("derivation #%d: PlmnIDToNas(%s/%s) = %v, TS 24.501 9.11.3.4 gives %s", i, mcc, sib, c["plmn_conv_sibling"], want), 0)
			}
		}
	}
	return fs
}

func psScenario(r *kernel.Rand, mode string, nea, nia int, optIEs bool) *scn.Scenario {
	o := GenOpts{Profile: "ps-" + mode, Mode: "test", MinReg: 1, MaxReg: 1, Sessions: mode != "register", Latency: "swarm-fast", ExplicitUEs: 1, OptIEs: optIEs, TopLevelOpts: mode == "establish"}
	s := Gen(r.Uint64(), o)
	s.Args = []string{}
	s.Rig = map[string]interface{}{"mode": mode, "nea": nea, "nia": nia, "ran_id": r.Intn(1 << 31)}
	return s
}

// psScenario2 is psScenario("establish") with room for a second subscriber (IMSI + 1).
func psScenario2(r *kernel.Rand, optIEs bool) *scn.Scenario {
	o := GenOpts{Profile: "ps-establish", Mode: "test", MinReg: 2, MaxReg: 2, Sessions: true, Latency: "swarm-fast", ExplicitUEs: 2, OptIEs: optIEs, TopLevelOpts: true}
	s := Gen(r.Uint64(), o)
	s.Args = []string{}
	s.Rig = map[string]interface{}{"mode": "establish", "nea": 0, "nia": 2, "ran_id": 0}
	return s
}

// probeScenario draws one sequence of 1..4 direct derivations in one process.
func probeScenario(root *kernel.Rand, i int) *scn.Scenario {
	s := psScenario(root, "probe", 0, 2, false)
	// a sequence of 1..4 derivations in one process: consecutive subscribers share the operator's
	// OP (different K), share K, or switch between OPc-configured and OP-only provisioning
	var probes []interface{}
	n := root.Range(1, 4)
	var prevK, prevOP []byte
	for q := 0; q < n; q++ {
		k, op := boundary128(root), boundary128(root)
		if q > 0 {
			switch root.Intn(4) {
			case 0:
				op = prevOP
			case 1:
				k = prevK
			case 2:
				op = prevOP
				k = append([]byte{}, prevK...)
				k[root.Intn(16)] ^= 1 << uint(root.Intn(8))
			}
		}
		prevK, prevOP = k, op
		opc := crypto.OPc(k, op)
		rnd, sqn, amf := boundary128(root), root.Bytes(6), root.Bytes(2)
		switch root.Intn(6) {
		case 0:
			sqn = make([]byte, 6)
		case 1:
			sqn = []byte{0xff, 0xff, 0xff, 0xff, 0xff, 0xff}
		}
		mnc := root.Digits(2 + root.Intn(2))
		mcc := root.Digits(3)
		p := map[string]interface{}{"k": hexCase(root, k), "op": hexCase(root, op), "opc": hexCase(root, opc), "rand": hex.EncodeToString(rnd), "sqn": hex.EncodeToString(sqn), "amf": hex.EncodeToString(amf),
			"mcc": mcc, "mnc": mnc, "imsi": mcc + mnc + root.Digits(supiTail(root, len(mnc))), "nea": float64((i + q) % 4), "nia": float64(((i + q) / 4) % 4)}
		if root.Chance(1, 2) {
			p["opc"] = ""
		} else if root.Chance(1, 2) {
			p["op"] = hexCase(root, root.Bytes(16)) // OPc configured: OP must be ignored
		}
		if q > 0 && root.Chance(1, 3) {
			// re-authentication of the UE of the previous derivation (same context, same subscriber,
			// same algorithm identifiers): a new SQN, and the RAND either fresh, repeated, or one bit off;
			// sometimes in another serving network
			pp := probes[q-1].(map[string]interface{})
			for _, f := range []string{"k", "op", "opc", "imsi", "nea", "nia", "mcc", "mnc"} {
				p[f] = pp[f]
			}
			p["same_ue"] = true
			k, _ = hex.DecodeString(p["k"].(string))
			if p["opc"].(string) != "" {
				opc, _ = hex.DecodeString(p["opc"].(string))
			} else {
				opb, _ := hex.DecodeString(p["op"].(string))
				opc = crypto.OPc(k, opb)
			}
			prevK = k
			switch root.Intn(3) {
			case 0:
				rnd, _ = hex.DecodeString(pp["rand"].(string))
			case 1:
				rnd, _ = hex.DecodeString(pp["rand"].(string))
				rnd[root.Intn(16)] ^= 1 << uint(root.Intn(8))
			}
			p["rand"] = hex.EncodeToString(rnd)
			if hex.EncodeToString(sqn) == pp["sqn"].(string) {
				sqn[5] ^= 1
			}
			p["sqn"] = hex.EncodeToString(sqn)
			if root.Chance(1, 4) {
				p["mcc"] = root.Digits(3)
			}
		}
		if root.Sub(fmt.Sprint("rk", i, q)).Chance(1, 3) {
			p["kamf2"] = hex.EncodeToString(root.Sub(fmt.Sprint("rkv", i, q)).Bytes(32))
		}
		autn := crypto.AUTN(k, opc, rnd, sqn, amf)
		// AUTN values a network may produce include leading zero octets of SQN xor AK
		p["autn"] = hex.EncodeToString(autn)
		probes = append(probes, p)
	}
	s.Rig["probes"] = probes
	s.Rig["nea"], s.Rig["nia"] = probes[0].(map[string]interface{})["nea"], probes[0].(map[string]interface{})["nia"]
	return s
}

func checkC05(c *Ctx) {
	nWS, nPS, nProbe := 1200, 1800, 3000
	if c.Tier == "thorough" {
		nWS, nPS, nProbe = 40000, 100000, 100000
	}
	c.Rule = "evaluation = one simulated run: (i) whole-system registrations whose RES* and MACs are judged by the reference AUSF/AMF; (ii) procedure-level runs of RegisterUE for {NEA0,1,2} x {NIA1,2} after which K_AMF, K_NASint, K_NASenc and the counters of the UE context are compared with the reference AMF's context, in OPc-configured and OP-only twins that must agree; (iii) sequences of 1..4 direct derivations in one process (consecutive subscribers sharing OP with different K, sharing K, or switching OPc/OP-only) for all 4 x 4 algorithm identifiers against the TS 33.501 Annex A formulas. distinct = (part, algorithm pair, OP-only?, MNC length, SUPI length); non-trivial = all"
	c.Assume = append(c.Assume, assumptionsWS...)
	c.Assume = append(c.Assume, "part (iii) is a direct state probe (no conversation): NEA3, NIA0 and NIA3 cannot complete a registration, they only act as key distinguishers")
	root := kernel.New(c.Seed).Sub("c05")
	shapes := map[string]bool{}
	shape := func(part string, s *scn.Scenario) {
		shapes[fmt.Sprintf("%s/%v/%v/%v/%d/%d", part, s.Rig["nea"], s.Rig["nia"], s.Config.OPC == "", len(s.Config.MNC), len(s.Config.IMSI))] = true
	}
	o := GenOpts{Profile: "c05-ws", Mode: "test", MinReg: 1, MaxReg: 2, Latency: "zero", ExplicitUEs: 2, OptIEs: true}
	c.Batch(wsJobs(c.Seed, nWS, o, "ws-c05"), func(j Job, r *Run, fs []Finding) { shape("ws", j.S) })

	var jobs []Job
	pairs := [][2]int{{0, 1}, {0, 2}, {1, 1}, {1, 2}, {2, 1}, {2, 2}}
	for i := 0; i < nPS/2; i++ {
		p := pairs[i%len(pairs)]
		s := psScenario(root, "register", p[0], p[1], true)
		// twin A: OPc configured (OP present but to be ignored); twin B: OP only
		k, _ := hex.DecodeString(s.Config.K)
		op := root.Bytes(16)
		opc := crypto.OPc(k, op)
		a, b := cloneScn(s), cloneScn(s)
		a.Config.OPC, a.Config.OP = hex.EncodeToString(opc), hex.EncodeToString(root.Bytes(16))
		b.Config.OPC, b.Config.OP = "", strings.ToUpper(hex.EncodeToString(op))
		jobs = append(jobs, Job{S: a, Rig: "ps", Judge: "ps-c05", Tag: "c05-ps-opc"}, Job{S: b, Rig: "ps", Judge: "ps-c05", Tag: "c05-ps-op"})
	}
	twin := map[uint64]string{}
	c.Batch(jobs, func(j Job, r *Run, fs []Finding) {
		shape("ps", j.S)
		if ctx := evInfo(r, "ctx"); len(ctx) > 0 {
			v := fmt.Sprint(ctx[0]["kamf"], ctx[0]["knasint"], ctx[0]["knasenc"])
			if prev, ok := twin[j.S.Seed]; ok {
				c.Probes["op-only-twin-compared"]++
				if prev != v && !c.violKeys["keys.op-twin@RegisterUE"] {
					c.violKeys["keys.op-twin@RegisterUE"] = true
					c.pendingExtra = append(c.pendingExtra, pendingViol{j, r, Finding{Key: "keys.op-twin@RegisterUE", Detail: "the OP-only configuration derives different keys than the configuration with the corresponding OPc", UE: 0}})
				}
			} else {
				twin[j.S.Seed] = v
			}
		}
	})
	c.flushExtra()

	// several subscribers with credentials of their own in one process: contexts are all created
	// first, then they authenticate one after the other (state shared between subscribers shows here)
	nMulti := nPS / 2
	c.Batch(multiJobs(root.Sub("multi"), nMulti, multiOpts{profile: "c05-multi", viaCreate: false, roamers: false, ownCreds: true}, "ps-multi-c05", "c05-multi"), func(j Job, r *Run, fs []Finding) {
		shape("multi", j.S)
		c.Probes["multi-subscriber-registrations"] += len(j.S.Subscribers)
	})
	c.Batch(multiJobs(root.Sub("multi2"), nMulti, multiOpts{profile: "c05-multi", viaCreate: true, roamers: true, ownCreds: true}, "ps-multi-c05", "c05-multi-create"), func(j Job, r *Run, fs []Finding) {
		shape("multi-create", j.S)
		c.Probes["multi-subscriber-registrations"] += len(j.S.Subscribers)
	})

	jobs = nil
	for i := 0; i < nProbe; i++ {
		s := probeScenario(root, i)
		jobs = append(jobs, Job{S: s, Rig: "ps", Judge: "ps-probe-c05", Tag: "c05-probe"})
	}
	c.Batch(jobs, func(j Job, r *Run, fs []Finding) {
		shape("probe", j.S)
		n := len(j.S.Rig["probes"].([]interface{}))
		c.Evals += n - 1
		if n > 1 {
			c.Probes["derivation-sequences-in-one-process"]++
		}
	})
	c.sigs = shapes
}

// supiTail draws the number of digits after MCC+MNC so that SUPI lengths 5..15 are all reached,
// the two ends of the range (5 digits: nothing after a 2-digit MNC; 15 digits) with extra weight.
func supiTail(r *kernel.Rand, mncLen int) int {
	lo, hi := 5-3-mncLen, 12-mncLen
	if lo < 0 {
		lo = 0
	}
	switch r.Intn(6) {
	case 0:
		return lo
	case 1:
		return hi
	}
	return r.Range(lo, hi)
}

type pendingViol struct {
	j Job
	r *Run
	f Finding
}

func (c *Ctx) flushExtra() {
	for _, p := range c.pendingExtra {
		rp := Replay{Property: c.ID, Key: p.f.Key, Detail: p.f.Detail, Rig: p.j.Rig, Judge: p.j.Judge, Scenario: p.j.S, LogHash: p.r.LogHash(), Seed: p.j.S.Seed, Shrunk: "not shrunk (cross-run invariant)"}
		c.writeReplay(rp)
	}
	c.pendingExtra = nil
}

// ---------- C12 ----------

func judgePSEstablish(r *Run) []Finding {
	fs := rigEnded(r)
	ret := evInfo(r, "ret")
	if len(ret) == 0 {
		if len(fs) == 0 {
			fs = addFinding(fs, "unobserved.ret@"+lastSite(r), "EstablishPDU never returned", -1)
		}
		return fs
	}
	p := ueParamsOf(r.Scn, 0)
	var teid uint32
	b, _ := hex.DecodeString(p.TEID)
	for _, x := range b {
		teid = teid<<8 | uint32(x)
	}
	g := ret[0]
	if fmt.Sprint(g["ue_ip"]) != p.UEIP {
		fs = addFinding(fs, "extract.ue_ip@EstablishPDU", fmt.Sprintf("EstablishPDU returned UE address %v, the SMF assigned %s (accept options %#x, QoS rules %d octets)", g["ue_ip"], p.UEIP, p.AccOpt, p.QoSRuleLen), 0)
	}
	if f, _ := g["teid"].(float64); uint32(f) != teid {
		fs = addFinding(fs, "extract.teid@EstablishPDU", fmt.Sprintf("EstablishPDU returned TEID %v, the UPF's is %d (transfer options %#x, AMBR %d/%d)", g["teid"], teid, p.TransOpt, p.AMBRDL, p.AMBRUL), 0)
	}
	if fmt.Sprint(g["upf_ip"]) != p.UPFIP {
		fs = addFinding(fs, "extract.upf_ip@EstablishPDU", fmt.Sprintf("EstablishPDU returned UPF address %v, the network's is %s (transfer options %#x, AMBR %d/%d)", g["upf_ip"], p.UPFIP, p.TransOpt, p.AMBRDL, p.AMBRUL), 0)
	}
	// what was reported stays what it was while the conversation goes on
	second, _ := r.Scn.Rig["second_ue"].(bool)
	if second && len(fs) == 0 {
		if r2 := evInfo(r, "ret2"); len(r2) > 0 {
			p2 := ueParamsOf(r.Scn, 1)
			var t2 uint32
			b2, _ := hex.DecodeString(p2.TEID)
			for _, x := range b2 {
				t2 = t2<<8 | uint32(x)
			}
			f, _ := r2[0]["teid"].(float64)
			if fmt.Sprint(r2[0]["ue_ip"]) != p2.UEIP || uint32(f) != t2 || fmt.Sprint(r2[0]["upf_ip"]) != p2.UPFIP {
				fs = addFinding(fs, "extract.second-ue@EstablishPDU", fmt.Sprintf("the second UE's session was reported as %v/%v/%v, the network assigned %s/%d/%s", r2[0]["ue_ip"], r2[0]["teid"], r2[0]["upf_ip"], p2.UEIP, t2, p2.UPFIP), 1)
			}
		}
	}
	if then, _ := r.Scn.Rig["then_release"].(bool); (then || second) && len(fs) == 0 {
		later := evInfo(r, "ret-later")
		if len(later) == 0 {
			if kind, _ := crashSite(r.StderrText()); kind == "" && r.Exit == 0 {
				fs = addFinding(fs, "unobserved.ret-later@"+lastSite(r), "the reported values were not looked at again", -1)
			}
		} else {
			for _, k := range []string{"ue_ip", "teid", "upf_ip"} {
				if fmt.Sprint(later[0][k]) != fmt.Sprint(g[k]) {
					fs = addFinding(fs, "extract.changed-later@EstablishPDU", fmt.Sprintf("EstablishPDU reported %s=%v; after later exchanges on the same association the caller's value reads %v", k, g[k], later[0][k]), 0)
				}
			}
		}
	}
	return fs
}

// judgePSTermination: under a corruption fault the procedure only has to end.
func judgePSTermination(r *Run) []Finding {
	var fs []Finding
	if r.TimedOut {
		fs = addFinding(fs, "extract.nontermination@EstablishPDU", fmt.Sprintf("EstablishPDU did not end on a corrupted setup request (%v)", r.Scn.Rig["corrupt"]), 0)
	}
	return fs
}

func judgePSDirect(r *Run) []Finding {
	var fs []Finding
	ins, _ := r.Scn.Rig["inputs"].([]interface{})
	started, finished := -1, -1
	res := map[int]map[string]interface{}{}
	for _, e := range r.Events {
		switch e.Ev {
		case "case":
			started = e.I
		case "res":
			finished = e.I
			res[e.I] = e.Info
		}
	}
	if r.TimedOut && started > finished && started < len(ins) {
		m := ins[started].(map[string]interface{})
		fs = addFinding(fs, "extract.nontermination@"+fmt.Sprint(m["fn"]), fmt.Sprintf("extraction did not terminate on input #%d %v", started, m["hex"]), -1)
		return fs
	}
	if kind, where := crashSite(r.StderrText()); kind != "" && kind != "panic" {
		fs = addFinding(fs, "extract."+kind+"@"+where, firstLines(r.StderrText(), 4), -1)
	}
	for i, in := range ins {
		m := in.(map[string]interface{})
		want, ok := m["want"].(string)
		if !ok {
			continue
		}
		got := res[i]
		if got == nil {
			fs = addFinding(fs, "extract.no-result@"+fmt.Sprint(m["fn"]), fmt.Sprintf("no value for well-formed input #%d", i), -1)
			continue
		}
		if m["fn"] == "nas" && fmt.Sprint(got["ue_ip"]) != want {
			fs = addFinding(fs, "extract.ue_ip@DecodePDUSessionNASPDU", fmt.Sprintf("extracted %v from a well-formed accept assigning %s (%v)", got["ue_ip"], want, m["note"]), -1)
		}
	}
	return fs
}

func corruptionFaults(r *kernel.Rand, n int) []map[string]interface{} {
	var out []map[string]interface{}
	for i := 0; i < n; i++ {
		m := map[string]interface{}{"target": []string{"nas", "transfer"}[r.Intn(2)], "off": r.Intn(400), "val": r.Pick(0, 0x7f, 0x80, 0xff, r.Intn(256))}
		m["kind"] = []string{"truncate", "flip", "set", "set", "splice"}[r.Intn(5)]
		out = append(out, m)
	}
	return out
}

func checkC12(c *Ctx) {
	nPS, nWS, nCorr, nDirect := 3000, 1000, 5000, 150
	if c.Tier == "thorough" {
		nPS, nWS, nCorr, nDirect = 100000, 30000, 200000, 4000
	}
	c.Rule = "evaluation = one simulated run: RegisterUE + EstablishPDU over the simulated association with a reference SMF that builds the accept with every optional IE of TS 24.501 table 8.3.2.1.1 independently present (table order), QoS rules 0..4000 octets and the transfer with bit rates over 0..4e12, compared with the three return values; traffic-mode whole-system runs observed through the data-plane stub; corruption faults (truncate/flip/set/splice) on the NAS-PDU or transfer inside an otherwise valid request for the termination clause; direct calls for accepts up to 4000 octets of QoS rules and arbitrary byte strings. distinct = (rig, accept option set, transfer option set, QoS length class); non-trivial = the run reached EstablishPDU"
	c.Assume = append(c.Assume, assumptionsWS...)
	c.Assume = append(c.Assume, "downlink ciphering is NEA0 (the extractor documents that it only works with 5G-EA0)", "accepts are also fed to the extractor directly (labelled direct) together with arbitrary byte strings for the termination clause")
	root := kernel.New(c.Seed).Sub("c12")
	shapes := map[string]bool{}
	var jobs []Job
	for i := 0; i < nPS; i++ {
		ps := psScenario(root, "establish", 0, 2, true)
		if i%3 == 0 {
			ps.Rig["then_release"] = true
			ps.Lat = genLatency(root.Sub("fast"), "zero") // the fixed sleeps of release/deregistration need a prompt core
		}
		if i%3 == 1 {
			ps = psScenario2(root, true)
			ps.Rig["second_ue"] = true
		}
		jobs = append(jobs, Job{S: ps, Rig: "ps", Judge: "ps-c12", Tag: "c12-ps"})
	}
	c.Batch(jobs, func(j Job, r *Run, fs []Finding) {
		p := ueParamsOf(j.S, 0)
		shapes[fmt.Sprintf("ps/%x/%x/%d", p.AccOpt, p.TransOpt, qosClass(p.QoSRuleLen))] = true
		if p.AccOpt&1 != 0 {
			c.Probes["5gsm-cause-before-pdu-address"]++
		}
		if p.QoSRuleLen >= 256 {
			c.Probes["qos-rules-over-255-octets"]++
		}
		if p.AMBRDL > 0xffffffff || p.AMBRUL > 0xffffffff {
			c.Probes["bit-rate-above-2^32"]++
		}
	})
	o := GenOpts{Profile: "c12-traffic", Mode: "traffic", MinReg: 1, MaxReg: 4, Sessions: true, Latency: "swarm-fast", ExplicitUEs: 4, OptIEs: true}
	c.Batch(wsJobs(c.Seed, nWS, o, "ws-c12"), func(j Job, r *Run, fs []Finding) {
		for i := 0; i < j.S.Config.UENumber; i++ {
			p := ueParamsOf(j.S, i)
			shapes[fmt.Sprintf("ws/%x/%x/%d", p.AccOpt, p.TransOpt, qosClass(p.QoSRuleLen))] = true
		}
	})
	// termination under corruption faults
	jobs = nil
	for _, m := range corruptionFaults(root, nCorr) {
		s := psScenario(root, "establish", 0, 2, true)
		s.Rig["corrupt"] = m
		jobs = append(jobs, Job{S: s, Rig: "ps", Judge: "ps-term", Tag: "c12-corrupt"})
	}
	c.Batch(jobs, func(j Job, r *Run, fs []Finding) {
		m := j.S.Rig["corrupt"].(map[string]interface{})
		c.Faults["corrupt:"+fmt.Sprint(m["target"])+":"+fmt.Sprint(m["kind"])]++
		if kind, _ := crashSite(r.StderrText()); kind == "panic" {
			c.Probes["corruption-ended-in-panic"]++
		} else if r.Exit == 0 {
			c.Probes["corruption-survived"]++
		}
	})
	// direct calls
	jobs = nil
	for i := 0; i < nDirect; i++ {
		var ins []interface{}
		for k := 0; k < 50; k++ {
			ur := root.Sub(fmt.Sprint("d", i, k))
			p := genUE(ur, GenOpts{OptIEs: true}, 0)
			p.QoSRuleLen = ur.Pick(0, 255, 256, 1000, 2047, 2048, 4000, ur.Range(1000, 4000))
			sn := []byte{1, 1, 2, 3}
			acc := core.BuildAccept(p, 5, 1, sn).Encode()
			psi := byte(5)
			// MAC and sequence number are whatever the keys make them: octet patterns that look like the
			// plain header behind them (7e 00 68) included
			mac, sq := ur.Bytes(4), byte(ur.Intn(256))
			switch ur.Intn(8) {
			case 0:
				mac = []byte{0x7e, 0x00, 0x68, byte(ur.Intn(256))}
			case 1:
				mac = []byte{byte(ur.Intn(256)), 0x7e, 0x00, 0x68}
			case 2:
				mac, sq = []byte{byte(ur.Intn(256)), byte(ur.Intn(256)), 0x7e, 0x00}, 0x68
			case 3:
				mac, sq = []byte{0x2e, byte(ur.Intn(16)), 0x00, 0xc2}, 0x7e
			case 4:
				mac = []byte{0, 0, 0, 0}
			}
			msg := nas.Protect(2, mac, sq, nas.DLNASTransport(acc, &psi, nil))
			switch k % 5 {
			case 0, 1:
				ins = append(ins, map[string]interface{}{"fn": "nas", "hex": hex.EncodeToString(msg), "want": net.ParseIP(p.UEIP).String(), "note": fmt.Sprintf("opts %#x qos %d", p.AccOpt, p.QoSRuleLen)})
				shapes[fmt.Sprintf("direct/%x/%d", p.AccOpt, qosClass(p.QoSRuleLen))] = true
			case 2:
				ins = append(ins, map[string]interface{}{"fn": "nas", "hex": hex.EncodeToString(core.Corrupt(msg, corruptionFaults(ur, 1)[0]))})
			case 3:
				ins = append(ins, map[string]interface{}{"fn": "transfer", "hex": hex.EncodeToString(core.Corrupt(core.BuildTransfer(p), corruptionFaults(ur, 1)[0]))})
			case 4:
				fn := []string{"nas", "transfer"}[ur.Intn(2)]
				ins = append(ins, map[string]interface{}{"fn": fn, "hex": hex.EncodeToString(ur.Bytes(ur.Range(0, 300)))})
			}
		}
		if i%4 == 0 {
			// adversarial length indicators: a well-formed accept up to the session AMBR, then one
			// optional IE of every format whose length indicator sits at a boundary of its width (the
			// walker must end whatever it claims), followed by a well-formed PDU address
			lens16 := []int{0, 1, 2, 0x7f, 0x80, 0xff, 0x100, 0x7ffd, 0x7fff, 0x8000, 0xfffc, 0xfffd, 0xfffe, 0xffff}
			lens8 := []int{0, 1, 2, 0x7f, 0x80, 0xfc, 0xfd, 0xfe, 0xff}
			head := []byte{0x2e, 0x05, 0x01, 0xc2, 0x11, 0x00, 0x02, 0x01, 0x01, 0x06, 0x06, 0x00, 0x64, 0x06, 0x00, 0x32}
			tail := []byte{0x29, 0x05, 0x01, 10, 45, 0, 7}
			var cases [][]byte
			for _, iei := range []byte{0x75, 0x78, 0x79, 0x7b, 0x77} {
				for _, l := range lens16 {
					cases = append(cases, append(append(append([]byte{}, head...), iei, byte(l>>8), byte(l)), tail...))
				}
			}
			for _, iei := range []byte{0x22, 0x25, 0x17, 0x66, 0x1f, 0x18} {
				for _, l := range lens8 {
					cases = append(cases, append(append(append([]byte{}, head...), iei, byte(l)), tail...))
				}
			}
			for _, acc := range cases {
				psi := byte(5)
				msg := nas.Protect(2, []byte{0, 0, 0, 0}, 0, nas.DLNASTransport(acc, &psi, nil))
				ins = append(ins, map[string]interface{}{"fn": "nas", "hex": hex.EncodeToString(msg)})
			}
		}
		s := psScenario(root, "direct", 0, 2, false)
		s.Rig["inputs"] = ins
		s.Rig["no_shrink"] = true
		jobs = append(jobs, Job{S: s, Rig: "ps", Judge: "ps-direct", Tag: "c12-direct"})
	}
	c.Batch(jobs, func(j Job, r *Run, fs []Finding) {
		n := len(j.S.Rig["inputs"].([]interface{}))
		c.Probes["direct-extraction-calls"] += n
		c.Evals += n - 1
	})
	c.sigs = shapes
}

func qosClass(n int) int {
	switch {
	case n == 0:
		return 0
	case n < 128:
		return 1
	case n < 256:
		return 2
	case n < 1024:
		return 3
	}
	return 4
}

// ---------- multi-subscriber procedure-level runs (shared by C01, C05, C11, C16) ----------

type multiOpts struct {
	profile   string
	viaCreate bool // contexts come from stgutg.CreateUE (RAN-UE-NGAP-ID derived from the IMSI, NEA0/NIA2)
	roamers   bool // subscribers of other PLMNs (same MNC length) are mixed in
	ownCreds  bool // subscribers have credentials of their own
	latency   string
}

// multiScenario draws a scenario in which 2..4 explicit subscribers share one process and one
// association: all contexts are created first (in a drawn order), then they register in list order.
func multiScenario(rp *kernel.Rand, o multiOpts) *scn.Scenario {
	lat := o.latency
	if lat == "" {
		lat = "zero"
	}
	g := GenOpts{Profile: o.profile, Mode: "test", MinReg: 1, MaxReg: 1, Latency: lat, ExplicitUEs: 4, OptIEs: true, MinMSIN: 4}
	s := Gen(rp.Uint64(), g)
	s.Args = []string{}
	cfg := &s.Config
	n := rp.Range(2, 4)
	last4 := func(x string) string {
		if len(x) <= 4 {
			return x
		}
		return x[len(x)-4:]
	}
	subs := []string{cfg.IMSI}
	seen := map[string]bool{cfg.IMSI: true}
	seen4 := map[string]bool{last4(cfg.IMSI): true}
	for tries := 0; len(subs) < n && tries < 100; tries++ {
		var sub string
		tail := rp.Digits(rp.Range(4, 12-len(cfg.MNC)))
		kind := rp.Intn(3)
		if !o.roamers {
			kind = 0
		}
		switch kind {
		case 0: // same PLMN, another MSIN (length may differ)
			sub = cfg.MCC + cfg.MNC + tail
		case 1: // roamer: another MCC/MNC with the same MNC length
			sub = rp.Digits(3) + rp.Digits(len(cfg.MNC)) + tail
		default: // roamer from a neighbouring PLMN: one digit differs
			pl := []byte(cfg.MCC + cfg.MNC)
			k := rp.Intn(len(pl))
			pl[k] = byte('0' + (int(pl[k]-'0')+1+rp.Intn(9))%10)
			sub = string(pl) + tail
		}
		if seen[sub] || seen4[last4(sub)] {
			continue
		}
		seen[sub], seen4[last4(sub)] = true, true
		subs = append(subs, sub)
	}
	n = len(subs)
	s.Subscribers = subs
	s.Population = n
	if o.ownCreds {
		creds := make([]scn.Cred, n)
		x := hexCase(rp, rp.Bytes(16))
		style := rp.Intn(5)
		switch style {
		case 0: // one operator: every subscription is OP-only with the operator's OP, keys differ
			cfg.OPC = ""
			if cfg.OP == "" {
				cfg.OP = x
			}
			for i := 1; i < n; i++ {
				creds[i] = scn.Cred{K: hexCase(rp, boundary128(rp)), OPC: "", OP: cfg.OP}
			}
		case 1: // the same 128-bit value provisioned once as OPc and once as OP under one K
			cfg.OPC, cfg.OP = x, ""
			for i := 1; i < n; i++ {
				if i%2 == 1 {
					creds[i] = scn.Cred{K: cfg.K, OPC: "", OP: x}
				} else {
					creds[i] = scn.Cred{K: cfg.K, OPC: x, OP: ""}
				}
			}
		case 2: // unrelated credentials in every provisioning shape
			for i := 1; i < n; i++ {
				c := scn.Cred{K: hexCase(rp, boundary128(rp)), OPC: hexCase(rp, rp.Bytes(16)), OP: hexCase(rp, rp.Bytes(16))}
				switch rp.Intn(3) {
				case 0:
					c.OPC = ""
				case 1:
					c.OP = ""
				}
				creds[i] = c
			}
		case 3: // everybody uses the configured credentials
		case 4: // keys one bit apart under the same OP/OPc strings
			kb, _ := hex.DecodeString(cfg.K)
			for i := 1; i < n; i++ {
				kk := append([]byte{}, kb...)
				kk[rp.Intn(16)] ^= 1 << uint(rp.Intn(8))
				creds[i] = scn.Cred{K: hexCase(rp, kk), OPC: cfg.OPC, OP: cfg.OP}
			}
		}
		s.SubCreds = creds
	}
	// creation order: a permutation
	perm := make([]interface{}, n)
	idx := make([]int, n)
	for i := range idx {
		idx[i] = i
	}
	for i := n - 1; i > 0; i-- {
		j := rp.Intn(i + 1)
		idx[i], idx[j] = idx[j], idx[i]
	}
	for i, v := range idx {
		perm[i] = float64(v)
	}
	var dereg []interface{}
	for k := 0; k < n; k++ {
		if rp.Chance(1, 3) {
			dereg = append(dereg, float64(k))
		}
	}
	nea, nia := 0, 2
	if !o.viaCreate {
		p := [][2]int{{0, 1}, {0, 2}, {1, 1}, {1, 2}, {2, 1}, {2, 2}}[rp.Intn(6)]
		nea, nia = p[0], p[1]
	}
	s.Rig = map[string]interface{}{"mode": "multi", "nea": nea, "nia": nia, "ran_id": 1 + rp.Intn(1000), "dereg": dereg, "create_order": perm, "via_create_ue": o.viaCreate}
	for len(s.UEs) < n {
		u := genUE(rp.Sub(fmt.Sprint("ue", len(s.UEs))), g, len(s.UEs))
		u.AmfUeID = int64(1000*len(s.UEs)) + u.AmfUeID%1000
		s.UEs = append(s.UEs, u)
	}
	s.UEs = s.UEs[:n]
	return s
}

// reregScenario: one UE context registers, deregisters and registers again (optionally with other
// algorithms). The subscriber list names the same SUPI twice.
func reregScenario(rp *kernel.Rand, profile string) *scn.Scenario {
	g := GenOpts{Profile: profile, Mode: "test", MinReg: 1, MaxReg: 1, Latency: "zero", ExplicitUEs: 2, OptIEs: true, MinMSIN: 4}
	s := Gen(rp.Uint64(), g)
	s.Args = []string{}
	s.Subscribers = []string{s.Config.IMSI, s.Config.IMSI}
	s.Population = 2
	pairs := [][2]int{{0, 1}, {0, 2}, {1, 1}, {1, 2}, {2, 1}, {2, 2}}
	via := rp.Chance(1, 3)
	p := pairs[rp.Intn(6)]
	if via {
		p = [2]int{0, 2}
	}
	s.Rig = map[string]interface{}{"mode": "rereg", "nea": p[0], "nia": p[1], "ran_id": 1 + rp.Intn(1000), "via_create_ue": via}
	if rp.Chance(1, 2) { // other algorithms for the second life
		q := pairs[rp.Intn(6)]
		s.Rig["nea2"], s.Rig["nia2"] = float64(q[0]), float64(q[1])
	}
	for len(s.UEs) < 2 {
		u := genUE(rp.Sub(fmt.Sprint("ue", len(s.UEs))), g, len(s.UEs))
		u.AmfUeID = int64(1000*len(s.UEs)) + u.AmfUeID%1000
		s.UEs = append(s.UEs, u)
	}
	s.UEs = s.UEs[:2]
	if s.UEs[0].AmfUeID == s.UEs[1].AmfUeID {
		s.UEs[1].AmfUeID++
	}
	return s
}

func reregJobs(rp *kernel.Rand, n int, profile, judge, tag string) []Job {
	var jobs []Job
	for i := 0; i < n; i++ {
		jobs = append(jobs, Job{S: reregScenario(rp, profile), Rig: "ps", Judge: judge, Tag: tag})
	}
	return jobs
}

// coreUEs returns the reference core's per-UE summary taken right after the registrations.
func coreUEs(r *Run) []map[string]interface{} {
	for _, e := range r.Events {
		if e.Ev == "summary" {
			if c, ok := e.Info["core"].(map[string]interface{}); ok {
				var out []map[string]interface{}
				ues, _ := c["ues"].([]interface{})
				for _, u := range ues {
					m, _ := u.(map[string]interface{})
					out = append(out, m)
				}
				return out
			}
		}
	}
	return nil
}

// judgePSMulti: every rule of the reference core, how the rig ended, what UE creation returned and
// the keys every UE installed.
func judgePSMulti(r *Run) []Finding {
	fs := ruleFindings(r)
	fs = append(fs, rigEnded(r)...)
	subs := r.Scn.Subscribers
	cred := func(i int) scn.Cred {
		if i < len(r.Scn.SubCreds) && r.Scn.SubCreds[i].K != "" {
			return r.Scn.SubCreds[i]
		}
		return scn.Cred{K: r.Scn.Config.K, OPC: r.Scn.Config.OPC, OP: r.Scn.Config.OP}
	}
	created := map[int]map[string]interface{}{}
	ctx := map[int]map[string]interface{}{}
	for _, e := range r.Events {
		if e.Ev == "created" {
			created[e.I] = e.Info
		}
		if e.Ev == "ctx" {
			ctx[e.I] = e.Info
		}
	}
	for _, e := range r.Events {
		if e.Ev != "captable" {
			continue
		}
		for a := 0; a < 4; a++ {
			for b := 0; b < 4; b++ {
				want := fmt.Sprintf("%02x%02x", 0x80>>uint(a), 0x80>>uint(b))
				if got := fmt.Sprint(e.Info[fmt.Sprintf("%d/%d", a, b)]); got != want {
					fs = addFinding(fs, "ident.seccap-table@GetUESecurityCapability", fmt.Sprintf("a context set to 5G-EA%d / 5G-IA%d advertises %s, TS 24.501 9.11.3.54 has %s for exactly those two", a, b, got, want), 0)
				}
			}
		}
	}
	ranSeen := map[string]int{}
	for i := range subs {
		c := created[i]
		if c == nil {
			continue
		}
		if got := fmt.Sprint(c["supi"]); got != "imsi-"+subs[i] {
			fs = addFinding(fs, "ident.created-supi@CreateUE", fmt.Sprintf("the context created for subscriber %s carries SUPI %s", subs[i], got), i)
		}
		want := cred(i)
		for _, x := range [][3]string{{"k", want.K, "K"}, {"opc", want.OPC, "OPc"}, {"op", want.OP, "OP"}} {
			if got := fmt.Sprint(c[x[0]]); got != x[1] {
				fs = addFinding(fs, "ident.created-"+x[0]+"@CreateUE", fmt.Sprintf("subscriber #%d of %d created in this process carries %s %q, configured %q", i, len(subs), x[2], got, x[1]), i)
			}
		}
		id := fmt.Sprint(c["ran_ue_ngap_id"])
		if j, dup := ranSeen[id]; dup {
			fs = addFinding(fs, "ident.created-ran-id@CreateUE", fmt.Sprintf("subscribers #%d and #%d share RAN-UE-NGAP-ID %s", j, i, id), i)
		}
		ranSeen[id] = i
	}
	cus := coreUEs(r)
	for i := range subs {
		c := ctx[i]
		if c == nil || i >= len(cus) {
			continue
		}
		for _, x := range [][2]string{{"kamf", "kamf"}, {"knasint", "knasint"}, {"knasenc", "knasenc"}} {
			if fmt.Sprint(c[x[0]]) != fmt.Sprint(cus[i][x[1]]) {
				fs = addFinding(fs, "keys."+x[0]+"@RegisterUE", fmt.Sprintf("UE #%d of %d installed %s=%v, the network derived %v", i, len(subs), x[0], c[x[0]], cus[i][x[1]]), i)
			}
		}
	}
	if len(ctx) < len(subs) && len(fs) == 0 {
		fs = addFinding(fs, "unobserved.ctx@"+lastSite(r), fmt.Sprintf("%d of %d registrations completed: %s", len(ctx), len(subs), tail(r.StdoutText(), 160)), -1)
	}
	return fs
}

func init() {
	judges["ps-multi"] = judgePSMulti
	judges["ps-multi-c05"] = func(r *Run) []Finding {
		return onlyRules(judgePSMulti(r), "aka.res", "nas.mac", "nas.container", "nas.decode", "keys.", "exit.status", "panic", "hang", "watchdog", "unobserved.")
	}
	judges["ps-rereg-c16"] = func(r *Run) []Finding {
		return onlyRules(judgePSMulti(r), "ident.seccap", "nas.seccap", "nas.mac", "nas.sht", "aka.res", "exit.status", "panic", "hang", "watchdog", "unobserved.")
	}
	judges["ps-multi-c16"] = func(r *Run) []Finding {
		return onlyRules(judgePSMulti(r), "ident.", "suci.", "aka.res", "nas.seccap", "nas.mac", "nas.sht", "exit.status", "panic", "hang", "watchdog", "unobserved.")
	}
}

// multiJobs appends n multi-subscriber jobs.
func multiJobs(rp *kernel.Rand, n int, o multiOpts, judge, tag string) []Job {
	var jobs []Job
	for i := 0; i < n; i++ {
		jobs = append(jobs, Job{S: multiScenario(rp, o), Rig: "ps", Judge: judge, Tag: tag})
	}
	return jobs
}
