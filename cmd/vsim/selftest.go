package main

import (
	"fmt"
	"os"

	"verifsim/kernel"
)

// selftest determinism: every scenario executed several times, on different
// workers and with different child GOMAXPROCS, must give byte-identical event
// logs, de-framed stdout and exit status.
func selftest(args []string) {
	if len(args) < 1 || args[0] != "determinism" {
		usage()
	}
	env, err := Prepare()
	gEnv = env
	if err != nil {
		harnessFail("%v", err)
	}
	n := 200
	if v := os.Getenv("VSIM_SELFTEST_N"); v != "" {
		fmt.Sscan(v, &n)
	}
	root := kernel.New(4242)
	profiles := []GenOpts{
		{Profile: "c01", Mode: "test", MinReg: 1, MaxReg: 4, Latency: "swarm", ExplicitUEs: 4, OptIEs: true},
		{Profile: "c02-test", Mode: "test", MinReg: 0, MaxReg: 6, Sessions: true, MaxCount: 6, Latency: "swarm", ExplicitUEs: 12, OptIEs: true},
		{Profile: "c02-traffic", Mode: "traffic", MinReg: 0, MaxReg: 6, Sessions: true, Latency: "swarm", ExplicitUEs: 12, OptIEs: true},
	}
	bad := 0
	type key struct{ hash string }
	for i := 0; i < n; i++ {
		s := Gen(root.Uint64(), profiles[i%len(profiles)])
		var first string
		for rep := 0; rep < 3; rep++ {
			r := env.RunBin(env.SimBin, (i+rep*5)%16, s)
			h := r.LogHash()
			if rep == 0 {
				first = h
			} else if h != first {
				bad++
				fmt.Printf("NONDETERMINISM seed=%d profile=%s: %s vs %s\n", s.Seed, s.Profile, first, h)
			}
		}
	}
	fmt.Printf("determinism self-test: %d scenarios x 3 executions (different worker directories), %d divergences\n", n, bad)
	env.Cleanup()
	if bad > 0 {
		os.Exit(1)
	}
}
